"""Seams: every source of nondeterminism or fault the properties can depend on, owned by
the simulator.  Nothing here needs a hook in /repo (DESIGN.md section 2.2).

* allocator  -- numpy.empty / numpy.empty_like return poisoned buffers to mir_eval callers
* storage    -- SimFS / SimRaw under Python's real BufferedReader + TextIOWrapper,
                reached through the name `open` in mir_eval.io's globals or as file objects
* warnings   -- recorder replacing warnings.showwarning
* scheduler  -- baton-passing real threads pre-empted at line events inside mir_eval,
                asynchronous abort injection (SimAbort)
"""

import errno
import io
import sys
import threading
import warnings

# --------------------------------------------------------------------------------------
# allocator seam
# --------------------------------------------------------------------------------------
ALLOC = {"mode": None, "fired": 0, "prefix": None, "stale": b"", "installed": False, "sites": set()}
POISONS = ("nan", "big", "neg", "zero", "stale")
POISON_VALUE = {"nan": float("nan"), "big": 1.5e300, "neg": -7e77, "zero": 0.0}
SENTINELS = (1.5e300, -7e77)


def _poison(arr):
    import numpy as np

    mode = ALLOC["mode"]
    if mode is None or arr.size == 0:
        return
    try:
        if mode == "stale":
            src = ALLOC["stale"]
            if not src:
                src = b"\x5a\xa5\x3c\xc3\x7e\x81\x18\xe7"
            flat = arr.reshape(-1).view(np.uint8) if arr.flags.c_contiguous else None
            if flat is None or arr.dtype.kind not in "fiu":
                arr.fill(1)
            else:
                need = flat.size
                rep = (src * (need // len(src) + 1))[:need]
                flat[:] = np.frombuffer(rep, dtype=np.uint8)
        elif arr.dtype.kind in "fc":
            arr.fill(POISON_VALUE[mode])
        elif arr.dtype.kind in "iu":
            arr.fill(0 if mode == "zero" else 77)
        elif arr.dtype.kind == "b":
            arr.fill(mode != "zero")
        else:
            return
    except Exception:
        return
    ALLOC["fired"] += 1


def install_allocator(prefix):
    """Patch numpy.empty / numpy.empty_like.  Must run before mir_eval is imported so that
    a `from numpy import empty` in the tree under test would bind the wrapper as well."""
    if ALLOC["installed"]:
        return
    import numpy as np

    ALLOC["prefix"] = prefix
    real_empty, real_empty_like = np.empty, np.empty_like

    def empty(*a, **k):
        arr = real_empty(*a, **k)
        if ALLOC["mode"] is not None:
            f = sys._getframe(1)
            if f.f_code.co_filename.startswith(ALLOC["prefix"]):
                ALLOC["sites"].add((f.f_code.co_name, f.f_lineno))
                _poison(arr)
        return arr

    def empty_like(*a, **k):
        arr = real_empty_like(*a, **k)
        if ALLOC["mode"] is not None:
            f = sys._getframe(1)
            if f.f_code.co_filename.startswith(ALLOC["prefix"]):
                ALLOC["sites"].add((f.f_code.co_name, f.f_lineno))
                _poison(arr)
        return arr

    empty.__wrapped__ = real_empty
    empty_like.__wrapped__ = real_empty_like
    np.empty = empty
    np.empty_like = empty_like
    ALLOC["installed"] = True


def set_poison(mode):
    assert mode is None or mode in POISONS
    ALLOC["mode"] = mode


def note_returned(value):
    """Remember the bytes of the most recent array an op returned: the next `stale`
    allocation is filled with them (models heap reuse)."""
    import numpy as np

    if isinstance(value, np.ndarray) and value.size and value.dtype.kind in "fiu":
        ALLOC["stale"] = np.ascontiguousarray(value).tobytes()[:4096]
    elif isinstance(value, (tuple, list)):
        for v in value:
            if isinstance(v, np.ndarray) and v.size and v.dtype.kind in "fiu":
                ALLOC["stale"] = np.ascontiguousarray(v).tobytes()[:4096]
                break


# --------------------------------------------------------------------------------------
# warnings seam
# --------------------------------------------------------------------------------------
class WarningRecorder(object):
    """Replaces warnings.showwarning; records (category, message, thread name).  No
    catch_warnings inside threads: it is not thread-safe and would make the harness, not
    mir_eval, nondeterministic."""

    def __init__(self):
        self.items = []

    def install(self):
        warnings.resetwarnings()
        warnings.simplefilter("always")
        warnings.showwarning = self._show
        self.items = []

    def _show(self, message, category, filename, lineno, file=None, line=None):
        self.items.append((category.__name__, str(message), threading.current_thread().name))

    def take(self):
        out, self.items = self.items, []
        return out

    def take_for(self, actor):
        name = "actor-" + actor
        out = [it for it in self.items if it[2] == name]
        self.items = [it for it in self.items if it[2] != name]
        return out


WARN = WarningRecorder()


# --------------------------------------------------------------------------------------
# storage seam
# --------------------------------------------------------------------------------------
class SimRaw(io.RawIOBase):
    """A raw device holding `data`.  `dev` is a plain dict (part of the plan):
      chunks : list of ints  -- sizes of successive reads handed out (cycled); short reads
      eintr  : list of ints  -- indices of readinto() calls that raise InterruptedError first
      eio_at : int or None   -- byte offset at which the device fails with EIO (fatal)
    Counters go to `fired` (a dict) only when the behaviour really differed."""

    def __init__(self, data, dev=None, fired=None, name="<simraw>"):
        super().__init__()
        self._data = data
        self._pos = 0
        self._dev = dev or {}
        self._fired = fired if fired is not None else {}
        self._calls = 0
        self._eintr_done = set()
        self._once_done = False
        self.name = name
        self.reads = 0
        self.max_pos = 0

    def readable(self):
        return True

    def seekable(self):
        return True

    def writable(self):
        return False

    def tell(self):
        return self._pos

    def seek(self, off, whence=0):
        if whence == 0:
            self._pos = off
        elif whence == 1:
            self._pos += off
        else:
            self._pos = len(self._data) + off
        self._pos = max(0, self._pos)
        return self._pos

    def _bump(self, k):
        self._fired[k] = self._fired.get(k, 0) + 1

    def readinto(self, b):
        idx = self._calls
        self._calls += 1
        dev = self._dev
        if idx in dev.get("eintr", ()) and idx not in self._eintr_done:
            self._eintr_done.add(idx)
            self._bump("eintr")
            raise InterruptedError(errno.EINTR, "simulated EINTR")
        n = len(b)
        chunks = dev.get("chunks")
        if chunks:
            c = chunks[self.reads % len(chunks)]
            if c < n and self._pos + c < len(self._data):
                self._bump("short_read")
            n = min(n, max(1, c))
        eio = dev.get("eio_at")
        if eio is not None:
            if self._pos >= eio:
                self._bump("eio")
                raise OSError(errno.EIO, "simulated EIO at byte %d" % eio)
            n = min(n, eio - self._pos)
        once = dev.get("eio_once_at")
        if once is not None and not self._once_done:
            # transient fault: the device fails ONE read at this offset (after delivering everything before
            # it) and works again afterwards
            if self._pos >= once:
                self._once_done = True
                self._bump("eio_once")
                raise OSError(errno.EIO, "simulated transient EIO at byte %d" % once)
            n = min(n, once - self._pos)
        chunk = self._data[self._pos:self._pos + n]
        b[:len(chunk)] = chunk
        self._pos += len(chunk)
        self.max_pos = max(self.max_pos, self._pos)
        self.reads += 1
        return len(chunk)


class SimText(io.TextIOBase):
    """A caller-owned TEXT stream (e.g. over a pipe or socket) whose read(n) legally returns fewer
    characters than asked for although more follow.  Line iteration goes through readline()."""

    def __init__(self, text, chunks=None, fired=None):
        super().__init__()
        self._text = text
        self._pos = 0
        self._chunks = chunks or [7]
        self._n = 0
        self._fired = fired if fired is not None else {}

    def readable(self):
        return True

    def seekable(self):
        return True

    def seek(self, off, whence=0):
        self._pos = off if whence == 0 else (self._pos + off if whence == 1 else len(self._text) + off)
        return self._pos

    def tell(self):
        return self._pos

    def read(self, size=-1):
        if size is None or size < 0:
            out = self._text[self._pos:]
            self._pos = len(self._text)
            return out
        c = max(1, self._chunks[self._n % len(self._chunks)])
        self._n += 1
        if c < size and self._pos + c < len(self._text):
            self._fired["short_text_read"] = self._fired.get("short_text_read", 0) + 1
        out = self._text[self._pos:self._pos + min(size, c)]
        self._pos += len(out)
        return out

    def readline(self, size=-1):
        i = self._text.find("\n", self._pos)
        end = len(self._text) if i < 0 else i + 1
        if size is not None and size >= 0:
            end = min(end, self._pos + size)
        out = self._text[self._pos:end]
        self._pos = end
        return out


class SimFS(object):
    """path -> durable bytes, with a device plan per path.  `open` has the signature the
    name `open` has where mir_eval.io uses it: open(path, mode='r')."""

    def __init__(self, bufsize=8192, fired=None):
        self.files = {}
        self.dev = {}
        self.bufsize = bufsize
        self.fired = fired if fired is not None else {}
        self.handles = []
        self.opens = 0

    def write(self, path, data, dev=None):
        assert isinstance(data, bytes)
        self.files[path] = data
        if dev is not None:
            self.dev[path] = dev

    def raw(self, path):
        if path not in self.files:
            raise FileNotFoundError(errno.ENOENT, "No such file or directory", path)
        return SimRaw(self.files[path], self.dev.get(path), self.fired, name=path)

    def open(self, path, mode="r", **kwargs):
        if "b" in mode or "w" in mode or "a" in mode or "+" in mode:
            raise ValueError("SimFS.open: unsupported mode %r" % (mode,))
        self.opens += 1
        raw = self.raw(path)
        h = io.TextIOWrapper(io.BufferedReader(raw, buffer_size=self.bufsize),
                             encoding=kwargs.get("encoding") or "utf-8",
                             errors=kwargs.get("errors"), newline=kwargs.get("newline"))
        self.handles.append((path, h, raw))
        return h

    def open_object(self, path):
        """A caller-owned handle (the loader must be able to use it, and gets the same
        device faults as a path)."""
        raw = self.raw(path)
        h = io.TextIOWrapper(io.BufferedReader(raw, buffer_size=self.bufsize), encoding="utf-8", newline=None)
        return h, raw


class PatchedOpen(object):
    """Context manager binding `open` in mir_eval.io's module globals to a SimFS."""

    def __init__(self, fs):
        self.fs = fs

    def __enter__(self):
        import mir_eval.io as mio

        self.mio = mio
        self.had = "open" in vars(mio)
        self.old = vars(mio).get("open")
        mio.open = self.fs.open
        return self

    def __exit__(self, *exc):
        if self.had:
            self.mio.open = self.old
        else:
            try:
                del self.mio.open
            except AttributeError:
                pass
        return False


# --------------------------------------------------------------------------------------
# scheduler seam: baton-passing threads, line-level pre-emption, abort injection
# --------------------------------------------------------------------------------------
class SimAbort(BaseException):
    """Asynchronous abort of a call (models KeyboardInterrupt / MemoryError delivery)."""


class Baton(object):
    """Exactly one actor thread runs at a time.  At every line event in a frame whose code
    lives under `prefix`, the running actor asks `decide(actor, func, line)`; the answer is
    the actor to run next (possibly itself) or the string 'abort'."""

    def __init__(self, prefix, decide, max_events=200000):
        self.prefix = prefix
        self.decide = decide
        self.max_events = max_events
        self.cv = threading.Condition()
        self.current = None
        self.alive = set()
        self.events = 0
        self.switches = 0
        self.errors = []
        self.tracing = threading.local()

    # --- trace function ---------------------------------------------------------------
    def _global_trace(self, frame, event, arg):
        if event != "call":
            return None
        if not frame.f_code.co_filename.startswith(self.prefix):
            return None
        return self._local_trace

    def _local_trace(self, frame, event, arg):
        if event != "line":
            return self._local_trace
        me = getattr(self.tracing, "actor", None)
        if me is None or getattr(self.tracing, "off", False):
            return self._local_trace
        self.events += 1
        if self.events > self.max_events:
            return self._local_trace
        nxt = self.decide(me, frame.f_code.co_name, frame.f_lineno)
        if nxt == "abort":
            raise SimAbort("abort at %s:%d" % (frame.f_code.co_name, frame.f_lineno))
        if nxt is not None and nxt != me:
            self._yield_to(me, nxt)
        return self._local_trace

    # --- baton -----------------------------------------------------------------------
    def _yield_to(self, me, nxt):
        with self.cv:
            if nxt not in self.alive:
                return
            self.switches += 1
            self.current = nxt
            self.cv.notify_all()
            while self.current != me:
                self.cv.wait()

    def _wait_turn(self, me):
        with self.cv:
            while self.current != me:
                self.cv.wait()

    def _finish(self, me, pick_next):
        with self.cv:
            self.alive.discard(me)
            if self.alive:
                self.current = pick_next(sorted(self.alive))
            else:
                self.current = None
            self.cv.notify_all()

    def run(self, actors, first, pick_next):
        """actors: dict name -> callable(baton, name).  Runs them to completion under the
        baton; returns when all have finished."""
        self.alive = set(actors)
        self.current = first
        threads = []

        def body(name, fn):
            self.tracing.actor = name
            self.tracing.off = False
            self._wait_turn(name)
            sys.settrace(self._global_trace)
            try:
                fn(self, name)
            except BaseException as e:  # harness bug: actor bodies catch everything themselves
                self.errors.append((name, repr(e)))
            finally:
                sys.settrace(None)
                self._finish(name, pick_next)

        for name in sorted(actors):
            t = threading.Thread(target=body, args=(name, actors[name]), name="actor-" + name, daemon=True)
            threads.append(t)
        for t in threads:
            t.start()
        for t in threads:
            t.join()

    # helpers for actor bodies ----------------------------------------------------------
    def untraced(self):
        return _Untraced(self)

    def boundary(self, me, nxt):
        """Voluntary hand-over at an op boundary."""
        if nxt is not None and nxt != me:
            self._yield_to(me, nxt)


class _Untraced(object):
    def __init__(self, baton):
        self.b = baton

    def __enter__(self):
        self.b.tracing.off = True

    def __exit__(self, *exc):
        self.b.tracing.off = False
        return False
