"""mirsim -- deterministic campaign simulator with fault injection for mir_eval.

See /verif/DESIGN.md.  Nothing in this package imports mir_eval at module
import time: the tree under test is selected by MIR_EVAL_SRC and imported by
``core.import_target()`` after the allocator seam is installed.
"""
