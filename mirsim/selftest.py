"""Proving the machinery before believing it (DESIGN.md section 7).

determinism : same VERIF_SEED twice, at several worker counts, and once more in a fresh
              interpreter under another PYTHONHASHSEED; per-run event-log digests must agree.
mutants     : each listed realistic regression is applied to a scratch copy of the tree (outside
              /repo and /verif, removed afterwards); the copy must still pass the 66 baseline tests,
              and the property's quick check with MIR_EVAL_SRC pointing at the copy must exit 1 with a
              VIOLATION line whose replay reproduces.
"""

import json
import os
import re
import shutil
import subprocess
import sys
import tempfile
import time

from . import core

N_DET = {"C14": 200, "C15": 96, "C19": 16, "C20": 300}
CHECK = os.path.join(core.VERIF_DIR, "check")


# --------------------------------------------------------------------------------------
def _digests(eng, n, workers):
    agg = core.run_campaign(eng, "quick", core.verif_seed(), n, workers=workers)
    if agg["harness"]:
        raise RuntimeError("harness errors during determinism run: %r" % agg["harness"][:2])
    AUX.update({r["run"]: r.get("aux") for r in agg["runs"]})
    return [(r["run"], r["log"]) for r in agg["runs"]]


AUX = {}


def digests_cli(prop, n, engine_of):
    """Used by the fresh-interpreter leg: print one 'run digest' line per run."""
    eng = engine_of(prop)
    for run, d in _digests(eng, n, 8):
        print("DIGEST %d %s %s" % (run, d, AUX.get(run)))
    return 0


def determinism(props, engine_of):
    bad = 0
    for prop in props:
        eng = engine_of(prop)
        n = int(os.environ.get("VERIF_DET_RUNS", "0")) or N_DET[prop]
        t0 = time.time()
        base = _digests(eng, n, 16)
        base_aux0 = dict(AUX)
        legs = {"16 workers again": _digests(eng, n, 16), "4 workers": _digests(eng, n, 4), "1 worker": _digests(eng, max(8, n // 8), 1)}
        for name, got in legs.items():
            want = base[: len(got)]
            diff = [(a, b) for a, b in zip(want, got) if a != b]
            print("determinism %s: %-18s %d runs -> %s" % (prop, name, len(got), "IDENTICAL" if not diff else "DIFFERENT %r" % diff[:3]))
            if diff:
                bad += 1
                _show_first_divergence(eng, diff[0][0][0])
        if hasattr(eng, "_WalkEngine"):
            w1 = _digests(eng._WalkEngine, 24, 16)
            w2 = _digests(eng._WalkEngine, 24, 3)
            print("determinism %s: %-18s %d walks -> %s" % (prop, "systematic walks", len(w1), "IDENTICAL" if w1 == w2 else "DIFFERENT"))
            if w1 != w2:
                bad += 1
        env = dict(os.environ, VERIF_HASHSEED="12345")
        env.pop("MIRSIM_REEXEC", None)
        out = subprocess.run([sys.executable, CHECK, "selftest-digests", prop, str(n)], env=env, stdout=subprocess.PIPE,
                             stderr=subprocess.STDOUT, text=True).stdout
        base_aux = base_aux0
        rows = [(int(m.group(1)), m.group(2), m.group(3)) for m in re.finditer(r"^DIGEST (\d+) (\S+) (\S+)$", out, re.M)]
        got = [(r[0], r[1]) for r in rows]
        diff = [(a, b) for a, b in zip(base, got) if a != b]
        ok = len(got) == len(base) and not diff
        if not ok and len(got) == len(base) and prop == "C15":
            # mir_eval iterates sets of scale degrees, so WHICH line a thread is pre-empted at can depend on the
            # hash seed; the schedule-independent summary (which call returned what) must still agree
            aux_diff = [r[0] for r in rows if r[2] != "None" and base_aux.get(r[0]) != r[2]]
            print("determinism %s: %-18s line-level schedules differ in %d runs (mir_eval's own set-iteration order); "
                  "per-call outcomes -> %s" % (prop, "PYTHONHASHSEED=12345", len(diff), "IDENTICAL" if not aux_diff else "DIFFERENT %r" % aux_diff[:3]))
            ok = not aux_diff
        print("determinism %s: %-18s %d runs -> %s   (%.1fs)" % (
            prop, "PYTHONHASHSEED=12345", len(got), "IDENTICAL" if ok and not diff else ("OK (see above)" if ok else "DIFFERENT in %d runs %r" % (len(diff), diff[:2])), time.time() - t0))
        if not ok:
            if len(got) != len(base):
                print(out[-2000:])
            bad += 1
    print("selftest-determinism: %s" % ("OK" if not bad else "%d legs differ" % bad))
    return 0 if not bad else 2


def _show_first_divergence(eng, run):
    import random

    rs = core.run_seed(core.verif_seed(), eng.PROP, run)
    logs = []
    for _ in range(2):
        plan = eng.gen_plan(random.Random(rs), "quick", run)
        st, res = core.fork_call(eng.execute, (plan, True))
        logs.append(res["log_events"] if st == "ok" else [repr(res)])
    for i, (a, b) in enumerate(zip(*logs)):
        if a != b:
            print("  run %d first differing event #%d:\n    %s\n    %s" % (run, i, a[:300], b[:300]))
            return
    print("  run %d: logs identical on direct re-execution (%d vs %d events)" % (run, len(logs[0]), len(logs[1])))


# --------------------------------------------------------------------------------------
# mutants: (name, property, file, old, new)
# --------------------------------------------------------------------------------------
# (c20_intervals_raise and c20_skip_bad_value were dropped: the baseline tests already catch them, so they
# are not "realistic changes that still pass the existing tests")
MUTANTS = [
    # ---- C20 ----
    ("c20_no_maxsplit", "C20", "mir_eval/io.py", "data = splitter.split(line.strip(), n_columns - 1)", "data = splitter.split(line.strip())"),
    ("c20_comment_anywhere", "C20", "mir_eval/io.py", "            if comment is not None and commenter.match(line):\n                continue\n\n            # Split each line using the supplied delimiter\n            data = splitter.split(line.strip(), n_columns - 1)",
     "            if comment is not None and commenter.search(line[1:] if line[:1] != comment[:1] else line):\n                continue\n\n            # Split each line using the supplied delimiter\n            data = splitter.split(line.strip(), n_columns - 1)"),
    ("c20_float32", "C20", "mir_eval/io.py", "events = load_delimited(filename, [float], delimiter=delimiter, comment=comment)",
     "events = load_delimited(filename, [np.float32], delimiter=delimiter, comment=comment)"),
    ("c20_key_multiline", "C20", "mir_eval/io.py", "    if len(scale) != 1:\n        raise ValueError(\"Key file should contain only one line.\")", "    if len(scale) < 1:\n        raise ValueError(\"Key file should contain only one line.\")"),
    ("c20_row_lost", "C20", "mir_eval/io.py", "                    \"{}:{:d}:\\n\\t{}\".format(n_columns, len(data), filename, row, line)", "                    \"{}:{:d}:\\n\\t{}\".format(n_columns, len(data), filename, 0, line)"),
    ("c20_stale_cache", "C20", "mir_eval/io.py", "    events = load_delimited(filename, [float], delimiter=delimiter, comment=comment)\n    events = np.array(events)\n",
     "    if isinstance(filename, str) and (filename, delimiter, comment) in _EVENT_CACHE:\n        return _EVENT_CACHE[(filename, delimiter, comment)]\n    events = load_delimited(filename, [float], delimiter=delimiter, comment=comment)\n    events = np.array(events)\n    if isinstance(filename, str):\n        _EVENT_CACHE[(filename, delimiter, comment)] = events\n",
     ("def load_events(", "_EVENT_CACHE = {}\n\n\ndef load_events(")),
    ("c20_patterns_norow", "C20", "mir_eval/io.py", "                    \"found at {}:{:d}:\\n\\t{}\".format(string_values, filename, row, line)", "                    \"found at {}:\\n\\t{}\".format(string_values, filename, line)"),
    ("c20_ragged_int_time", "C20", "mir_eval/io.py", "                converted_time = float(data[0])", "                converted_time = float(data[0]) if '.' in data[0] or 'e' in data[0].lower() else float(int(data[0]))"),
    # ---- C15 ----
    ("c15_melody_alias", "C15", "mir_eval/melody.py", "        voicing = np.array(voicing)\n", ""),
    ("c15_labels_alias", "C15", "mir_eval/util.py", "    if labels is not None:\n        # Work on a copy: the caller's list of labels must not be modified\n        labels = list(labels)\n\n    if t_min is not None:\n        # Find the intervals that end after t_min", "    if t_min is not None:\n        # Find the intervals that end after t_min"),
    ("c15_table_pollution", "C15", "mir_eval/chord.py", "        scale_degrees.update(addl_scale_degrees)", "        addl_scale_degrees.update(scale_degrees)\n        scale_degrees = addl_scale_degrees"),
    ("c15_resample_append", "C15", "mir_eval/multipitch.py", "    freq_vals = frequencies + [np.array([])]", "    frequencies.append(np.array([]))\n    freq_vals = frequencies"),
    ("c15_uninit_tp", "C15", "mir_eval/multipitch.py", "    true_positives = np.zeros((n_frames,))\n\n    for i, (ref_frame, est_frame) in enumerate(zip(ref_freqs, est_freqs)):\n",
     "    true_positives = np.empty((n_frames,))\n\n    for i, (ref_frame, est_frame) in enumerate(zip(ref_freqs, est_freqs)):\n        if len(ref_frame) == 0:\n            continue\n"),
    ("c15_kwargs_leak", "C15", "mir_eval/onset.py", "def evaluate(reference_onsets, estimated_onsets, **kwargs):", "_SEEN_KWARGS = {}\n\n\ndef evaluate(reference_onsets, estimated_onsets, **kwargs):\n    _SEEN_KWARGS.update(kwargs)\n    kwargs = dict(_SEEN_KWARGS)"),
    ("c15_shared_scratch", "C15", "mir_eval/beat.py", "    beat_error = np.zeros(estimated_beats.shape[0])\n    for n in range(estimated_beats.shape[0]):",
     "    if _SCRATCH[0] is None or _SCRATCH[0].shape[0] != estimated_beats.shape[0]:\n        _SCRATCH[0] = np.zeros(estimated_beats.shape[0])\n    beat_error = _SCRATCH[0]\n    for n in range(estimated_beats.shape[0]):",
     ("def _get_entropy(", "_SCRATCH = [None]\n\n\ndef _get_entropy(")),
    ("c15_abs_inplace", "C15", "mir_eval/melody.py", "    normalized_frequency = np.abs(freq_hz[freq_nonz_ind]) / base_frequency",
     "    np.abs(freq_hz, out=freq_hz)\n    normalized_frequency = freq_hz[freq_nonz_ind] / base_frequency"),
    # ---- C19 ----
    ("c19_sar_not_nan", "C19", "mir_eval/separation.py", "            sdr[:, k] = sir[:, k] = sar[:, k] = perm[:, k] = np.nan", "            sdr[:, k] = sir[:, k] = perm[:, k] = np.nan"),
    ("c19_isr_not_nan", "C19", "mir_eval/separation.py", "            sdr[:, k] = isr[:, k] = sir[:, k] = sar[:, k] = perm[:, k] = np.nan", "            sdr[:, k] = sir[:, k] = sar[:, k] = perm[:, k] = np.nan"),
    ("c19_window_minus_one", "C19", "mir_eval/separation.py", "        win_slice = slice(k * hop, k * hop + window)\n        ref_slice = reference_sources[:, win_slice]\n", "        win_slice = slice(k * hop, k * hop + window - 1)\n        ref_slice = reference_sources[:, win_slice]\n"),
    ("c19_hop_as_window", "C19", "mir_eval/separation.py", "        win_slice = slice(k * hop, k * hop + window)\n        ref_slice = reference_sources[:, win_slice, :]\n", "        win_slice = slice(k * hop, k * hop + hop)\n        ref_slice = reference_sources[:, win_slice, :]\n"),
    ("c19_images_empty_arity", "C19", "mir_eval/separation.py", "    if reference_sources.size == 0 or estimated_sources.size == 0:\n        return np.array([]), np.array([]), np.array([]), np.array([]), np.array([])\n\n    nsrc = reference_sources.shape[0]\n",
     "    if reference_sources.size == 0 or estimated_sources.size == 0:\n        return np.array([]), np.array([]), np.array([]), np.array([])\n\n    nsrc = reference_sources.shape[0]\n"),
    ("c19_silent_est_unchecked", "C19", "mir_eval/separation.py", "        if not _any_source_silent(ref_slice) and not _any_source_silent(est_slice):\n            sdr[:, k], sir[:, k], sar[:, k], perm[:, k] = bss_eval_sources(",
     "        if not _any_source_silent(ref_slice):\n            sdr[:, k], sir[:, k], sar[:, k], perm[:, k] = bss_eval_sources("),
    # ---- C14 ----
    ("c14_onset_no_validate", "C14", "mir_eval/onset.py", "    validate(reference_onsets, estimated_onsets)\n    # If either list is empty, return 0s", "    # If either list is empty, return 0s"),
    ("c14_assertion_error", "C14", "mir_eval/util.py", "        raise ValueError(\"Negative interval times found\")", "        raise AssertionError(\"Negative interval times found\")"),
    ("c14_cemgil_empty", "C14", "mir_eval/beat.py", "    if estimated_beats.size == 0 or reference_beats.size == 0:\n        return 0.0, 0.0\n    # We'll compute Cemgil's accuracy for each variation\n    accuracies = []", "    accuracies = []"),
    # (c14_chord_validate_est dropped: equivalent mutant -- split()/encode() validate every label again)
    ("c14_coincidence", "C14", "mir_eval/util.py", "        last_idx = np.argwhere(intervals[:, 0] >= t_max)", "        last_idx = np.argwhere(intervals[:, 0] > t_max)"),
    ("c14_coincidence_tmin", "C14", "mir_eval/util.py", "        first_idx = np.argwhere(intervals[:, 1] > t_min)", "        first_idx = np.argwhere(intervals[:, 1] >= t_min)"),
    ("c14_pscore_nan", "C14", "mir_eval/beat.py", "    if annotation_intervals.size == 0:\n        return 0.0\n", ""),
    ("c14_key_validate", "C14", "mir_eval/key.py", "        if mode not in [\"major\", \"minor\", \"other\"]:", "        if False and mode not in [\"major\", \"minor\", \"other\"]:"),
    ("c14_tempo_negative", "C14", "mir_eval/tempo.py", "    if not np.all(np.isfinite(tempi)) or np.any(tempi < 0):", "    if not np.all(np.isfinite(tempi)):"),
    ("c14_pitch_zero", "C14", "mir_eval/transcription.py", "    if ref_pitches.size > 0 and np.min(ref_pitches) <= 0:", "    if ref_pitches.size > 0 and np.min(ref_pitches) < 0:"),
]


def apply_mutant(root, m):
    name, prop, rel, old, new = m[:5]
    path = os.path.join(root, rel)
    with open(path) as f:
        s = f.read()
    if s.count(old) < 1:
        raise RuntimeError("mutant %s: pattern not found in %s" % (name, rel))
    s = s.replace(old, new, 1)
    for extra in m[5:]:
        if s.count(extra[0]) < 1:
            raise RuntimeError("mutant %s: extra pattern not found" % name)
        s = s.replace(extra[0], extra[1], 1)
    with open(path, "w") as f:
        f.write(s)


def mutants(names, engine_of):
    todo = [m for m in MUTANTS if not names or m[0] in names or m[1] in names]
    src = core.src_root()
    base = tempfile.mkdtemp(prefix="mirsim-mut.")
    results = []
    skip_baseline = os.environ.get("VERIF_MUT_SKIP_BASELINE") == "1"
    try:
        for m in todo:
            name, prop = m[0], m[1]
            root = os.path.join(base, name)
            shutil.copytree(src, root, ignore=shutil.ignore_patterns(".git", "__pycache__", "*.egg-info", "coverage.xml"))
            t0 = time.time()
            try:
                apply_mutant(root, m)
                if skip_baseline:
                    bl = "skipped"
                else:
                    p = subprocess.run([os.path.join(core.VERIF_DIR, "tools", "baseline_compare.py"), root], stdout=subprocess.PIPE,
                                       stderr=subprocess.STDOUT, text=True)
                    bl = "pass" if p.returncode == 0 else "FAIL"
                env = dict(os.environ, MIR_EVAL_SRC=root)
                env.pop("MIRSIM_REEXEC", None)
                q = subprocess.run([sys.executable, CHECK, prop, "--tier", "quick"], env=env, stdout=subprocess.PIPE, stderr=subprocess.STDOUT, text=True)
                vio = re.findall(r"^VIOLATION property=(\S+) replay=(\S+)$", q.stdout, re.M)
                classes = re.findall(r"^  class=(\S+) site=(\S+)", q.stdout, re.M)
                replay_ok = None
                if vio:
                    r = subprocess.run([sys.executable, CHECK, prop, "--replay", vio[0][1]], env=env, stdout=subprocess.PIPE,
                                       stderr=subprocess.STDOUT, text=True)
                    replay_ok = r.returncode == 1 and "IDENTICAL" in r.stdout
                    clean = subprocess.run([sys.executable, CHECK, prop, "--replay", vio[0][1]], env=dict(env, MIR_EVAL_SRC=src),
                                           stdout=subprocess.PIPE, stderr=subprocess.STDOUT, text=True)
                    replay_clean_on_base = clean.returncode == 0
                    for _, rp in vio:
                        try:
                            os.unlink(rp)
                        except OSError:
                            pass
                else:
                    replay_clean_on_base = None
                caught = q.returncode == 1 and bool(vio)
                results.append({"mutant": name, "property": prop, "baseline": bl, "caught": caught, "exit": q.returncode,
                                "classes": classes[:4], "replay_reproduces": replay_ok, "replay_clean_on_unmutated": replay_clean_on_base,
                                "wall_s": round(time.time() - t0, 1)})
                print("mutant %-26s %s baseline=%s caught=%s exit=%d %s replay=%s clean_on_base=%s (%.0fs)" % (
                    name, prop, bl, caught, q.returncode, classes[:2], replay_ok, replay_clean_on_base, time.time() - t0))
                if q.returncode not in (0, 1):
                    print(q.stdout[-1500:])
            finally:
                shutil.rmtree(root, ignore_errors=True)
            sys.stdout.flush()
    finally:
        shutil.rmtree(base, ignore_errors=True)
    out = os.path.join(os.environ.get("VERIF_MUT_OUT") or core.VERIF_DIR, "selftest_mutants.json")
    merged = {}
    if os.path.exists(out):
        try:
            merged = {r["mutant"]: r for r in json.load(open(out))["results"]}
        except Exception:
            merged = {}
    for r in results:
        merged[r["mutant"]] = r
    with open(out, "w") as f:
        json.dump({"source_tree": src, "results": [merged[k] for k in sorted(merged)]}, f, indent=1)
    missed = [r["mutant"] for r in results if not r["caught"]]
    unreal = [r["mutant"] for r in results if r["baseline"] == "FAIL"]
    print("selftest-mutants: %d/%d caught; missed=%s; baseline-failing (not realistic)=%s" % (
        len(results) - len(missed), len(results), missed, unreal))
    return 0 if not missed else 1
