"""Core of the campaign simulator: environment pinning, PRNG derivation, canonical
digests, fork isolation, the worker pool, minimisation, replay files, known findings
and evidence.  Engine modules (prop_c*.py) supply plans and oracles.
"""

import collections
import hashlib
import json
import os
import pickle
import re
import select
import signal
import struct
import sys
import time
import traceback

VERIF_DIR = os.path.dirname(os.path.dirname(os.path.abspath(__file__)))
PINNED_ENV = {
    "PYTHONHASHSEED": "0",
    "PYTHONUTF8": "1",
    "OPENBLAS_NUM_THREADS": "1",
    "OMP_NUM_THREADS": "1",
    "MKL_NUM_THREADS": "1",
    "PYTHONDONTWRITEBYTECODE": "1",
}

EXIT_OK, EXIT_VIOLATION, EXIT_HARNESS = 0, 1, 2
CAMPAIGN_WALL = {"quick": 420.0, "thorough": 4000.0}


# --------------------------------------------------------------------------------------
# environment
# --------------------------------------------------------------------------------------
def pin_environment(argv=None):
    """Re-exec the interpreter once so that hash order, text encoding and BLAS threading
    are the same in every invocation (a harness-level nondeterminism source otherwise).
    VERIF_HASHSEED overrides the hash seed (used only by the determinism self-test)."""
    want = dict(PINNED_ENV)
    if os.environ.get("VERIF_HASHSEED"):
        want["PYTHONHASHSEED"] = os.environ["VERIF_HASHSEED"]
    if all(os.environ.get(k) == v for k, v in want.items()):
        return
    if os.environ.get("MIRSIM_REEXEC") == "1":
        raise RuntimeError("environment pinning failed after re-exec")
    env = dict(os.environ)
    env.update(want)
    env["MIRSIM_REEXEC"] = "1"
    argv = argv or sys.argv
    os.execve(sys.executable, [sys.executable] + argv, env)


def src_root():
    return os.path.realpath(os.environ.get("MIR_EVAL_SRC", "/repo"))


_TARGET = None


def import_target():
    """Install the allocator seam, then import mir_eval (all task modules) from the tree
    under test.  Calls nothing in it.  Returns the package."""
    global _TARGET
    if _TARGET is not None:
        return _TARGET
    root = src_root()
    if not os.path.isdir(os.path.join(root, "mir_eval")):
        raise RuntimeError("no mir_eval package under %s" % root)
    sys.path.insert(0, root)
    from . import seams

    seams.install_allocator(os.path.join(root, "mir_eval") + os.sep)
    import importlib

    pkg = importlib.import_module("mir_eval")
    got = os.path.realpath(os.path.dirname(pkg.__file__))
    if got != os.path.join(root, "mir_eval"):
        raise RuntimeError("mir_eval imported from %s, wanted %s" % (got, root))
    for m in MODULES:
        importlib.import_module("mir_eval." + m)
    _TARGET = pkg
    return pkg


MODULES = [
    "alignment", "beat", "chord", "hierarchy", "io", "key", "melody", "multipitch",
    "onset", "pattern", "segment", "separation", "sonify", "tempo", "transcription",
    "transcription_velocity", "util",
]


# --------------------------------------------------------------------------------------
# PRNG derivation
# --------------------------------------------------------------------------------------
def verif_seed():
    try:
        return int(os.environ.get("VERIF_SEED", "0"))
    except ValueError:
        return 0


def run_seed(seed, prop, i):
    h = hashlib.sha256(("%d:%s:%d" % (seed, prop, i)).encode()).hexdigest()
    return int(h[:16], 16)


# --------------------------------------------------------------------------------------
# canonical serialisation / digests
# --------------------------------------------------------------------------------------
_ADDR = re.compile(r"0x[0-9a-fA-F]+")


def scrub(s):
    return _ADDR.sub("0x?", s)


def canon(x):
    """Bit-exact, hash-order independent canonical form (nested tuples / bytes)."""
    import numpy as np

    if x is None:
        return ("N",)
    t = type(x)
    if t is bool:
        return ("b", x)
    if t is int:
        return ("i", x)
    if t is float:
        return ("f", struct.pack("<d", x))
    if t is complex:
        return ("c", struct.pack("<dd", x.real, x.imag))
    if t is str:
        return ("s", x)
    if t is bytes:
        return ("y", x)
    if isinstance(x, np.ndarray):
        if x.dtype == object:
            return ("ao", x.shape, tuple(canon(e) for e in x.ravel().tolist()))
        return ("a", x.dtype.str, x.shape, np.ascontiguousarray(x).tobytes())
    if isinstance(x, np.generic):
        return ("g", x.dtype.str, x.tobytes())
    if t is list:
        return ("l", tuple(canon(e) for e in x))
    if t is tuple:
        return ("t", tuple(canon(e) for e in x))
    if isinstance(x, collections.OrderedDict):
        return ("od", tuple((canon(k), canon(v)) for k, v in x.items()))
    if isinstance(x, dict):
        return ("d", tuple((canon(k), canon(v)) for k, v in x.items()))
    if isinstance(x, (set, frozenset)):
        return ("S", tuple(sorted((canon(e) for e in x), key=repr)))
    if isinstance(x, BaseException):
        return ("exc", type(x).__name__, scrub(str(x)))
    if isinstance(x, (range, slice)):
        return ("r", repr(x))
    if hasattr(x, "tocoo") and hasattr(x, "shape"):
        c = x.tocoo()
        return ("sp", tuple(c.shape), canon(np.asarray(c.row)), canon(np.asarray(c.col)),
                canon(np.asarray(c.data)))
    if callable(x):
        return ("fn", getattr(x, "__module__", "?"), getattr(x, "__qualname__", repr(type(x))))
    if hasattr(x, "getvalue") and hasattr(x, "tell"):
        try:
            return ("io", x.getvalue(), x.tell())
        except ValueError:
            return ("io", "closed")
    return ("o", t.__name__, scrub(repr(x)))


def digest(x):
    return hashlib.sha256(repr(canon(x)).encode("utf-8", "surrogatepass")).hexdigest()[:24]


def brief(x, limit=160):
    """Short human-readable rendering for evidence samples and violation details."""
    try:
        import numpy as np

        with np.printoptions(threshold=8, edgeitems=3, precision=6):
            s = repr(x)
    except Exception:  # pragma: no cover
        s = "<unrepresentable %s>" % type(x).__name__
    s = scrub(" ".join(s.split()))
    return s if len(s) <= limit else s[: limit - 3] + "..."


class EventLog(object):
    """Append-only log of what happened in a run; its digest identifies the execution."""

    def __init__(self, keep=True):
        self.h = hashlib.sha256()
        self.n = 0
        self.keep = keep
        self.events = []

    def add(self, *ev):
        r = repr(ev)
        self.h.update(r.encode("utf-8", "surrogatepass"))
        self.h.update(b"\n")
        self.n += 1
        if self.keep:
            self.events.append(r)

    def digest(self):
        return self.h.hexdigest()[:24]


class Stats(object):
    """Counters and distinct-sets gathered during a run and merged across runs."""

    def __init__(self):
        self.count = collections.Counter()
        self.distinct = collections.defaultdict(set)

    def inc(self, key, n=1):
        self.count[key] += n

    def see(self, name, item):
        self.distinct[name].add(item)

    def merge(self, other):
        self.count.update(other.count)
        for k, v in other.distinct.items():
            self.distinct[k] |= v

    def dump(self):
        return {"count": dict(self.count), "distinct": {k: set(v) for k, v in self.distinct.items()}}

    @classmethod
    def load(cls, d):
        s = cls()
        s.count.update(d["count"])
        for k, v in d["distinct"].items():
            s.distinct[k] |= set(v)
        return s


def violation(cls, site, detail=""):
    return {"cls": cls, "site": site, "detail": detail}


def vkey(v):
    return (v["cls"], v["site"])


# --------------------------------------------------------------------------------------
# fork isolation
# --------------------------------------------------------------------------------------
def fork_call(fn, args=(), timeout=120.0):
    """Run fn(*args) in a fork()ed child; return (status, payload) with status in
    {'ok', 'exc', 'timeout', 'crash'}.  The child never returns into the caller's stack."""
    r, w = os.pipe()
    sys.stdout.flush()
    sys.stderr.flush()
    pid = os.fork()
    if pid == 0:
        code = 0
        try:
            os.close(r)
            try:
                # diagnostics for a hung run: dump the stacks shortly before the parent kills us.
                # (faulthandler.dump_traceback_later cannot be used: its watchdog thread does not
                # survive fork() and re-arming it in a grandchild deadlocks.)
                def _dump(signum, frame):
                    import faulthandler

                    faulthandler.dump_traceback(all_threads=True)

                signal.signal(signal.SIGALRM, _dump)
                signal.alarm(max(1, int(timeout) - 1))
            except Exception:
                pass
            try:
                res = ("ok", fn(*args))
            except BaseException:
                res = ("exc", traceback.format_exc())
            try:
                data = pickle.dumps(res, protocol=4)
            except Exception:
                data = pickle.dumps(("exc", "unpicklable result: " + traceback.format_exc()), protocol=4)
            view = memoryview(data)
            while view:
                n = os.write(w, view[:65536])
                view = view[n:]
            os.close(w)
        except BaseException:
            code = 3
        finally:
            os._exit(code)
    os.close(w)
    chunks = []
    deadline = time.monotonic() + timeout
    status = None
    try:
        while True:
            left = deadline - time.monotonic()
            if left <= 0:
                status = "timeout"
                break
            ready, _, _ = select.select([r], [], [], min(left, 1.0))
            if not ready:
                continue
            b = os.read(r, 1 << 20)
            if not b:
                break
            chunks.append(b)
    finally:
        os.close(r)
    if status == "timeout":
        try:
            os.kill(pid, signal.SIGKILL)
        except OSError:
            pass
        os.waitpid(pid, 0)
        return ("timeout", None)
    _, st = os.waitpid(pid, 0)
    data = b"".join(chunks)
    if not data:
        return ("crash", st)
    try:
        return pickle.loads(data)
    except Exception:
        return ("crash", "bad pickle (%d bytes), wait status %r" % (len(data), st))


def fork_map(fn, arglist, procs=8, timeout=1800.0):
    """Run fn(*args) for every args in arglist, each in its own fork, at most `procs` at a
    time; results in input order as (status, payload) like fork_call."""
    import threading

    results = [None] * len(arglist)
    lock = threading.Lock()
    nxt = [0]

    def pump():
        while True:
            with lock:
                i = nxt[0]
                nxt[0] += 1
            if i >= len(arglist):
                return
            results[i] = fork_call(fn, arglist[i], timeout=timeout)

    threads = [threading.Thread(target=pump) for _ in range(max(1, min(procs, len(arglist))))]
    for t in threads:
        t.start()
    for t in threads:
        t.join()
    return results


# --------------------------------------------------------------------------------------
# the worker pool
# --------------------------------------------------------------------------------------
def _worker_loop(engine, tier, seed, indices, run_timeout, want_logs):
    out = {"stats": Stats(), "runs": [], "violations": [], "harness": [], "samples": []}
    import random

    # Wall-clock guards of the harness itself (never an input of the simulation or of an oracle): a tree that is
    # broken badly enough can make single runs explode (a disabled validator lets a metric correlate 1e8-sample
    # impulse trains).  The VIOLATION lines found so far must still come out before the command's outer timeout,
    # so a worker stops starting runs when its wall budget is spent or when runs keep timing out; whatever was
    # not executed is reported as HARNESS-ERROR (exit 2 unless a violation was found: then exit 1).
    wall_budget = float(os.environ.get("VERIF_CAMPAIGN_S") or getattr(engine, "CAMPAIGN_WALL", CAMPAIGN_WALL).get(tier, 600.0))
    t_start = time.monotonic()
    timeouts = 0
    for n_done, i in enumerate(indices):
        if time.monotonic() - t_start > wall_budget or timeouts >= 2:
            out["harness"].append({"run": i, "what": "campaign stopped early (%s): %d of this worker's %d runs not executed" % (
                "runs keep timing out" if timeouts >= 2 else "wall budget of %.0f s spent" % wall_budget, len(indices) - n_done, len(indices)),
                "trace": ""})
            break
        rs = run_seed(seed, engine.PROP, i)
        try:
            plan = engine.gen_plan(random.Random(rs), tier, i)
            plan["run"] = i
            plan["run_seed"] = rs
        except Exception:
            out["harness"].append({"run": i, "what": "gen_plan", "trace": traceback.format_exc()})
            continue
        status, res = fork_call(engine.execute, (plan, want_logs), timeout=run_timeout)
        if status != "ok":
            out["harness"].append({"run": i, "what": status, "trace": scrub(str(res))[-3000:], "plan": plan})
            if status == "timeout":
                timeouts += 1
            continue
        out["stats"].merge(Stats.load(res["stats"]))
        rec = {"run": i, "seed": rs, "log": res["log_digest"], "events": res["n_events"], "aux": res.get("aux_digest")}
        if want_logs:
            rec["log_events"] = res.get("log_events")
        out["runs"].append(rec)
        if res["violations"]:
            out["violations"].append({"run": i, "plan": plan, "violations": res["violations"],
                                      "log": res["log_digest"]})
        if i < 3:
            out["samples"].append(engine.describe(plan, res))
    out["stats"] = out["stats"].dump()
    return out


def run_campaign(engine, tier, seed, n_runs, workers=None, run_timeout=None, want_logs=False,
                 first_run=0):
    """Execute runs first_run..first_run+n_runs-1 of `engine`, each in its own fork, spread
    over `workers` worker processes.  Results are merged in run-index order."""
    workers = workers or int(os.environ.get("VERIF_WORKERS", "0")) or min(16, os.cpu_count() or 1)
    workers = max(1, min(workers, n_runs))
    run_timeout = run_timeout or getattr(engine, "RUN_TIMEOUT", 120.0)
    import_target()
    parts = [list(range(first_run + w, first_run + n_runs, workers)) for w in range(workers)]
    procs = []
    for w in range(workers):
        r, wfd = os.pipe()
        sys.stdout.flush()
        sys.stderr.flush()
        pid = os.fork()
        if pid == 0:
            code = 0
            try:
                os.close(r)
                for rr, _ in procs:
                    try:
                        os.close(rr)
                    except OSError:
                        pass
                try:
                    res = ("ok", _worker_loop(engine, tier, seed, parts[w], run_timeout, want_logs))
                except BaseException:
                    res = ("exc", traceback.format_exc())
                data = pickle.dumps(res, protocol=4)
                view = memoryview(data)
                while view:
                    n = os.write(wfd, view[:65536])
                    view = view[n:]
                os.close(wfd)
            except BaseException:
                code = 3
            finally:
                os._exit(code)
        os.close(wfd)
        procs.append((r, pid))
    bufs = {r: [] for r, _ in procs}
    open_fds = set(bufs)
    while open_fds:
        ready, _, _ = select.select(list(open_fds), [], [], 5.0)
        for r in ready:
            b = os.read(r, 1 << 20)
            if b:
                bufs[r].append(b)
            else:
                open_fds.discard(r)
                os.close(r)
    agg = {"stats": Stats(), "runs": [], "violations": [], "harness": [], "samples": []}
    for r, pid in procs:
        os.waitpid(pid, 0)
        data = b"".join(bufs[r])
        try:
            status, res = pickle.loads(data)
        except Exception:
            status, res = "crash", "worker died (%d bytes)" % len(data)
        if status != "ok":
            agg["harness"].append({"run": -1, "what": "worker " + status, "trace": scrub(str(res))[-3000:]})
            continue
        agg["stats"].merge(Stats.load(res["stats"]))
        for k in ("runs", "violations", "harness", "samples"):
            agg[k].extend(res[k])
    for k in ("runs", "violations", "harness"):
        agg[k].sort(key=lambda d: d["run"])
    return agg


# --------------------------------------------------------------------------------------
# minimisation
# --------------------------------------------------------------------------------------
class Budget(object):
    def __init__(self, n, deadline=None):
        self.left = n
        self.used = 0
        self.deadline = deadline

    def expired(self):
        return self.deadline is not None and time.monotonic() > self.deadline


def reproduces(engine, plan, key, budget, timeout=None):
    if budget.left <= 0 or budget.expired():
        budget.left = 0
        return False
    budget.left -= 1
    budget.used += 1
    status, res = fork_call(engine.execute, (plan, False), timeout=timeout or getattr(engine, "RUN_TIMEOUT", 120.0))
    if status != "ok":
        return False
    return any(vkey(v) == key for v in res["violations"])


def ddmin_list(items, test, budget, protect=lambda it: False):
    """Classic greedy delta debugging over a list: try dropping chunks of halving size.
    `test(list) -> bool` says whether the failure persists."""
    items = list(items)
    chunk = max(1, len(items) // 2)
    while chunk >= 1 and budget.left > 0:
        i = 0
        progress = False
        while i < len(items) and budget.left > 0:
            cand = [it for j, it in enumerate(items) if not (i <= j < i + chunk) or protect(it)]
            if len(cand) < len(items) and test(cand):
                items = cand
                progress = True
            else:
                i += chunk
        if chunk == 1 and not progress:
            break
        chunk = max(1, chunk // 2) if chunk > 1 else (1 if progress else 0)
    return items


def minimise(engine, plan, key, max_execs=400, deadline=None):
    """Engine-directed greedy shrinking: engine.shrink(plan, test, budget) returns a plan that
    is no larger; a candidate is accepted iff the same (class, site) recurs when it is executed
    in a fresh fork.  Iterated to a fixpoint of engine.size()."""
    import copy

    budget = Budget(max_execs, deadline)

    def test(p):
        return reproduces(engine, p, key, budget)

    best = copy.deepcopy(plan)
    while budget.left > 0:
        cand = engine.shrink(copy.deepcopy(best), test, budget)
        if engine.size(cand) >= engine.size(best):
            break
        best = cand
    return best, budget.used


# --------------------------------------------------------------------------------------
# known findings, replay files, evidence
# --------------------------------------------------------------------------------------
def load_known(prop):
    path = os.path.join(VERIF_DIR, "known_findings.json")
    known, fixed = {}, {}
    if os.path.exists(path):
        with open(path) as f:
            data = json.load(f)
        for e in data.get("findings", []):
            if e.get("property") != prop:
                continue
            k = (e["class"], e["site"])
            if e.get("status") == "known":
                known[k] = e
            else:
                fixed[k] = e
    return known, fixed


def jsonable(x):
    import numpy as np

    if isinstance(x, dict):
        return {str(k): jsonable(v) for k, v in x.items()}
    if isinstance(x, (list, tuple)):
        return [jsonable(v) for v in x]
    if isinstance(x, (set, frozenset)):
        return sorted((jsonable(v) for v in x), key=repr)
    if isinstance(x, np.ndarray):
        return jsonable(x.tolist())
    if isinstance(x, np.generic):
        return jsonable(x.item())
    if isinstance(x, float):
        if x != x or x in (float("inf"), float("-inf")):
            return repr(x)
        return x
    if isinstance(x, bytes):
        return {"__bytes__": x.hex()}
    if isinstance(x, (str, int, bool)) or x is None:
        return x
    return repr(x)


def write_replay(prop, plan, key, res, minimised_from=None, execs=0):
    d = os.path.join(VERIF_DIR, "replays")
    os.makedirs(d, exist_ok=True)
    name = "%s-%d-%d-%s.json" % (prop, verif_seed(), plan.get("run", 0),
                                 hashlib.sha256(repr(key).encode()).hexdigest()[:8])
    path = os.path.join(d, name)
    doc = {
        "property": prop,
        "expect": {"cls": key[0], "site": key[1]},
        "verif_seed": verif_seed(),
        "run": plan.get("run"),
        "run_seed": plan.get("run_seed"),
        "log_digest": res.get("log_digest") if res else None,
        "detail": [{k: v.get(k) for k in ("cls", "site", "detail")} for v in (res or {}).get("violations", []) if vkey(v) == key][:3],
        "minimised_from": minimised_from,
        "minimiser_executions": execs,
        "plan_pickle": pickle.dumps(plan, protocol=4).hex(),
        "plan": jsonable(plan),
    }
    with open(path, "w") as f:
        json.dump(doc, f, indent=1, sort_keys=True)
    return path


def load_replay(path):
    with open(path) as f:
        doc = json.load(f)
    plan = pickle.loads(bytes.fromhex(doc["plan_pickle"]))
    return doc, plan


def write_evidence(prop, tier, seed, level, coverage, assumptions, wall_s, violations):
    d = os.path.join(VERIF_DIR, "evidence")
    if src_root() != "/repo" or os.environ.get("VERIF_RUNS") or os.environ.get("VERIF_WALK_FILES"):
        # a run against another tree (mutant / seeded change) or with an overridden run count is not
        # evidence about /repo from the registered command: keep it away from evidence/<id>.json
        d = os.path.join(d, "_scratch")
    os.makedirs(d, exist_ok=True)
    doc = {
        "property_id": prop,
        "tier": tier,
        "seed": seed,
        "level": level,
        "coverage": jsonable(coverage),
        "assumptions": assumptions,
        "wall_s": round(wall_s, 2),
        "violations": violations,
    }
    path = os.path.join(d, prop + ".json")
    tmp = path + ".tmp.%d" % os.getpid()
    with open(tmp, "w") as f:
        json.dump(doc, f, indent=1, sort_keys=True)
    os.replace(tmp, path)
    return path


# --------------------------------------------------------------------------------------
# the check driver
# --------------------------------------------------------------------------------------
def run_check(engine, tier, max_minimise=8):
    """Run one property's campaign and report per the interface.  Returns the exit code."""
    t0 = time.time()
    seed = verif_seed()
    prop = engine.PROP
    n_runs = int(os.environ.get("VERIF_RUNS", "0")) or engine.RUNS[tier]
    print("mirsim: property=%s tier=%s VERIF_SEED=%d runs=%d src=%s" % (prop, tier, seed, n_runs, src_root()))
    sys.stdout.flush()
    agg = run_campaign(engine, tier, seed, n_runs)
    extra = None
    if hasattr(engine, "extra_phase"):
        extra = engine.extra_phase(tier, seed, agg)
    known, fixed = load_known(prop)
    by_key = collections.OrderedDict()
    for rec in agg["violations"]:
        for v in rec["violations"]:
            by_key.setdefault(vkey(v), []).append((rec, v))
    new_keys = [k for k in by_key if k not in known]
    known_seen = [k for k in by_key if k in known]
    exit_code = EXIT_OK
    # Every listed known finding is re-executed from its committed replay file, so that it is reported on every
    # run (not only when the seeded campaign happens to hit it) and so that its disappearance is noticed too.
    known_status = {}
    for k, e in known.items():
        st = "not replayed (no replay file listed)"
        rp = e.get("replay")
        if rp:
            try:
                _, kplan = load_replay(os.path.join(VERIF_DIR, rp))
                status, res = fork_call(engine.execute, (kplan, False))
                if status == "ok" and any(vkey(v) == k for v in res["violations"]):
                    st = "reproduced from %s" % rp
                elif status == "ok":
                    st = "NOT reproduced from %s any more (repaired? then mark it fixed in known_findings.json)" % rp
                else:
                    st = "replay %s failed to run: %s" % (rp, status)
            except Exception as ex:  # noqa: BLE001
                st = "replay %s unreadable: %r" % (rp, ex)
        known_status[k] = st
        seen = len(by_key.get(k, ()))
        if st.startswith("reproduced") or seen:
            print("KNOWN-FINDING: property=%s class=%s site=%s -- %s [%s; seen in %d campaign runs]" % (
                prop, k[0], k[1], e.get("what", ""), st, seen))
        else:
            print("KNOWN-FINDING-ABSENT: property=%s class=%s site=%s [%s; not seen in this campaign]" % (prop, k[0], k[1], st))
    replay_paths = []

    # minimisation is bounded in wall time as well as in executions: a badly broken tree produces dozens of
    # violation keys, and the VIOLATION lines must be out long before the command's own timeout
    # (wall time bounds only how far minimisation goes, never what is explored or judged)
    min_deadline = time.monotonic() + float(os.environ.get("VERIF_MINIMISE_S") or (240.0 if tier == "quick" else 900.0))

    def _minimise_one(n, k):
        rec, v = by_key[k][0]
        plan = rec["plan"]
        best, used = minimise(engine, plan, k, deadline=min_deadline) if n < max_minimise else (plan, 0)
        status, res = fork_call(engine.execute, (best, False))
        if status != "ok" or not any(vkey(x) == k for x in res["violations"]):
            best, used = plan, 0
            status, res = fork_call(engine.execute, (best, False))
            if status != "ok":
                res = None
        return best, used, res, engine.size(plan)

    mins = fork_map(_minimise_one, [(n, k) for n, k in enumerate(new_keys)], procs=6, timeout=3600.0)
    for k, (status, payload) in zip(new_keys, mins):
        rec, v = by_key[k][0]
        if status == "ok":
            best, used, res, size0 = payload
        else:
            best, used, res, size0 = rec["plan"], 0, None, engine.size(rec["plan"])
        path = write_replay(prop, best, k, res, minimised_from=size0, execs=used)
        replay_paths.append(path)
        note = ""
        if k in fixed:
            note = " (listed as fixed in %s: it is back)" % fixed[k].get("commit", "?")
        print("VIOLATION property=%s replay=%s" % (prop, path))
        print("  class=%s site=%s runs=%d%s" % (k[0], k[1], len(by_key[k]), note))
        print("  detail: %s" % scrub(str(v.get("detail", "")))[:600])
        exit_code = EXIT_VIOLATION
    # A run that does not come back is not a pass.  If a plan times out, it is executed once more, alone; if it times
    # out again (at a limit that is ~100x what any run needs on the unchanged tree) the call under test does not
    # terminate on this input: that is reported as a violation of its own class (the plan is the replay), and the
    # early stop it caused is not counted against the harness.
    hang_confirmed = False
    touts = [h for h in agg["harness"] if h.get("what") == "timeout" and h.get("plan") is not None]
    if touts:
        hplan = touts[0]["plan"]
        status, _ = fork_call(engine.execute, (hplan, False), timeout=getattr(engine, "RUN_TIMEOUT", 120.0))
        if status == "timeout":
            hang_confirmed = True
            key = ("HANG", prop)
            path = write_replay(prop, hplan, key, None, minimised_from=engine.size(hplan), execs=0)
            print("VIOLATION property=%s replay=%s" % (prop, path))
            print("  class=HANG site=%s runs=%d" % (prop, len(touts)))
            print("  detail: run %s does not terminate within %.0f s (twice; every run of this check takes seconds on the unchanged tree)" % (
                touts[0].get("run"), getattr(engine, "RUN_TIMEOUT", 120.0)))
            new_keys.append(key)
            by_key[key] = [(touts[0], {"cls": "HANG", "site": prop, "detail": "timeout"})] * len(touts)
            exit_code = EXIT_VIOLATION
    shown = 0
    for h in agg["harness"]:
        if hang_confirmed and (h.get("what") == "timeout" or str(h.get("what", "")).startswith("campaign stopped early")):
            continue
        if shown < 5:
            print("HARNESS-ERROR run=%s what=%s\n%s" % (h.get("run"), h.get("what"), h.get("trace")))
        shown += 1
    if hang_confirmed:
        agg["harness"] = [h for h in agg["harness"] if not (h.get("what") == "timeout" or str(h.get("what", "")).startswith("campaign stopped early"))]
    if agg["harness"] and exit_code == EXIT_OK:
        exit_code = EXIT_HARNESS
    wall = time.time() - t0
    cov = engine.coverage(agg, tier, n_runs, wall, extra)
    cov.setdefault("runs", n_runs)
    cov["run_seeds"] = {"first": run_seed(seed, prop, 0), "last": run_seed(seed, prop, n_runs - 1)}
    cov["runs_per_hour"] = int(n_runs / max(wall, 1e-6) * 3600)
    cov["scheduler_events"] = sum(r["events"] for r in agg["runs"])
    cov["sim_time"] = None
    cov["sim_time_note"] = ("mir_eval reads no clock and has no timers; progress is counted in "
                            "scheduler events, not simulated seconds")
    cov["harness_errors"] = len(agg["harness"])
    cov["known_findings_seen"] = [{"class": k[0], "site": k[1], "runs": len(by_key.get(k, ())), "replay": known_status.get(k)} for k in known]
    cov["new_violation_keys"] = [{"class": k[0], "site": k[1], "runs": len(by_key[k])} for k in new_keys]
    cov["campaign_digest"] = hashlib.sha256(
        "".join("%d:%s;" % (r["run"], r["log"]) for r in agg["runs"]).encode()).hexdigest()[:24]
    cov["source_tree"] = src_root()
    write_evidence(prop, tier, seed, "exploration", cov, engine.ASSUMPTIONS, wall, len(new_keys))
    print("mirsim: %s %s: runs=%d events=%d violations(new)=%d known=%d harness=%d wall=%.1fs digest=%s" % (
        prop, tier, n_runs, cov["scheduler_events"], len(new_keys), len(known_seen),
        len(agg["harness"]), wall, cov["campaign_digest"]))
    return exit_code


def run_replay(engine, path):
    import_target()
    doc, plan = load_replay(path)
    key = (doc["expect"]["cls"], doc["expect"]["site"])
    status, res = fork_call(engine.execute, (plan, False), timeout=getattr(engine, "RUN_TIMEOUT", 120.0))
    if status == "timeout" and key[0] == "HANG":
        print("VIOLATION property=%s replay=%s" % (engine.PROP, path))
        print("  class=HANG site=%s\n  detail: the plan does not terminate within %.0f s" % (key[1], getattr(engine, "RUN_TIMEOUT", 120.0)))
        return EXIT_VIOLATION
    if status != "ok":
        print("HARNESS-ERROR replay %s: %s\n%s" % (path, status, res))
        return EXIT_HARNESS
    hit = [v for v in res["violations"] if vkey(v) == key]
    if hit:
        print("VIOLATION property=%s replay=%s" % (engine.PROP, path))
        print("  class=%s site=%s" % key)
        print("  detail: %s" % scrub(str(hit[0].get("detail", "")))[:600])
        same = res["log_digest"] == doc.get("log_digest")
        print("  log digest %s recorded %s -> %s" % (res["log_digest"], doc.get("log_digest"),
                                                    "IDENTICAL" if same else "DIFFERENT"))
        return EXIT_VIOLATION
    others = sorted(set(vkey(v) for v in res["violations"]))
    print("REPLAY-CLEAN %s (expected %s/%s; other violations in this replay: %s)" % (path, key[0], key[1], others))
    return EXIT_OK
