"""Shared object pool for the C15 campaign: per-task annotation bundles built
deterministically from a JSON-able spec {type, seed, n, ctx}.  All bundles of a run share
the run context `ctx` (common duration T, frame count L, alignment count N, source shape) so
that any reference can be paired with any estimate of the same type -- sharing one reference
among many calls is the point.
"""

import random

CHORD_LABELS = ["N", "X", "C", "C:maj", "A:min", "G:7", "D:maj7", "F#:min7", "Bb:maj/3", "E:sus4", "C:maj(9)",
                "A:min/b3", "D:7(#9)", "G:hdim7", "B:dim", "Eb:aug", "C:maj6", "C:9", "F:min9", "A:(1,3,5)",
                "C/5", "D:maj(*3)", "Ab:min6", "E:dim7", "G:sus2", "C#:minmaj7", "F:maj13", "B:1", "D:5",
                "C:9(#11)", "A:min9(*5)", "G:maj13(b7)/3", "E:11(b9)", "Bb:maj9(13)"]
SEG_LABELS = ["A", "B", "C", "a", "intro", "verse", "chorus", "Verse", "bridge", "outro", "Z"]
KEYS = ["C major", "c minor", "F# minor", "Db major", "Bb minor", "a minor", "G other", "E major", "Ab major"]
SCALE_DEGREES = ["1", "b3", "3", "5", "b7", "7", "#9", "b13", "4", "#11", "*3", "9"]
PITCH_CLASSES = ["C", "D#", "Eb", "F##", "Gb", "A", "B", "Cb", "E#"]
QUALITIES = ["maj", "min", "aug", "dim", "sus4", "sus2", "7", "maj7", "min7", "minmaj7", "maj6", "min6", "dim7",
             "hdim7", "maj9", "min9", "9", "b9", "#9", "min11", "11", "#11", "maj13", "min13", "13", "b13", "1", "5", ""]


def _np():
    import numpy as np

    return np


def _n(rng, spec, lo=0, hi=40):
    n = spec.get("n")
    if n is None:
        r = rng.random()
        if r < 0.08:
            n = lo
        elif r < 0.16:
            n = lo + 1
        else:
            n = rng.randrange(lo, hi + 1)
    return max(lo, min(hi, n))


def _grid(rng, x):
    return round(x, rng.choice([1, 2, 3, 6]))


def _partition(rng, n, T):
    """n contiguous intervals covering [0, T]."""
    np = _np()
    if n <= 0:
        return np.zeros((0, 2))
    cuts = sorted(set(_grid(rng, rng.uniform(0.05, T - 0.05)) for _ in range(n - 1)))
    cuts = [c for c in cuts if 0 < c < T]
    b = [0.0] + cuts + [float(T)]
    return np.array(list(zip(b[:-1], b[1:])), dtype=float)


def build(spec):
    """spec -> dict of fields (fresh objects every call)."""
    rng = random.Random(spec["seed"])
    ctx = spec["ctx"]
    if spec.get("role") == "ref" and "base_seed" in ctx and spec["type"] in DERIVED_TYPES and spec.get("n") is None:
        rng = _base_rng(ctx, spec["type"])  # the reference IS the run's base annotation of its type
    return BUILDERS[spec["type"]](rng, spec, ctx)


DERIVED_TYPES = ("events", "notes", "patterns", "multipitch")


def _derive(spec, ctx, typ):
    """Estimates are, most of the time, perturbed copies of the run's base annotation of that type
    (so that matching / thresholding code sees partial agreement, not two unrelated annotations)."""
    return spec.get("role") == "est" and "base_seed" in ctx and (spec["seed"] % 10) < 7 and spec.get("n") is None


def _base_rng(ctx, typ):
    return random.Random("%s:%s" % (ctx["base_seed"], typ))


def b_events(rng, spec, ctx):
    np = _np()
    if _derive(spec, ctx, "events"):
        base = b_events(_base_rng(ctx, "events"), {"role": "ref", "seed": 0, "n": None}, ctx)["ev"].tolist()
        ev = []
        for t in base:
            r = rng.random()
            if r < 0.15:
                continue
            ev.append(max(0.0, t + rng.choice([0.0, 0.0, 0.01, -0.03, 0.06, 0.2])))
            if r > 0.9:
                ev.append(t + rng.uniform(0.1, 0.4))
        ev = sorted(ev)
        return {"ev": np.array(ev, dtype=float), "labels": ["e%d" % i for i in range(len(ev))]}
    n = _n(rng, spec)
    style = rng.choice(["beats", "random", "random", "dense"])
    if style == "beats":
        period = rng.uniform(0.3, 1.2)
        t0 = rng.uniform(0, 6)
        ev = [t0 + i * period + rng.gauss(0, 0.02) for i in range(n)]
    elif style == "dense":
        ev = [rng.uniform(5, 8) for _ in range(n)]
    else:
        ev = [rng.uniform(0, ctx["T"]) for _ in range(n)]
    ev = sorted(max(0.0, e) for e in ev)
    if n > 2 and rng.random() < 0.2:
        ev[1] = ev[0]
    return {"ev": np.array(ev, dtype=float), "labels": ["e%d" % i for i in range(n)]}


def b_segments(rng, spec, ctx):
    np = _np()
    n = _n(rng, spec, 1, 12)
    T = ctx["T"]
    mode = spec.get("span", "same")
    if mode == "longer":
        T = T + rng.choice([0.5, 3.0, ctx["T"] * 0.3])
    elif mode == "shorter":
        T = max(1.0, T - rng.choice([0.5, 2.0]))
    iv = _partition(rng, n, T)
    if mode == "late" and len(iv):
        iv = iv + rng.choice([0.25, 1.0])
    pool = SEG_LABELS[: rng.choice([2, 3, 5, len(SEG_LABELS)])]
    return {"iv": iv, "labels": [rng.choice(pool) for _ in range(len(iv))]}


def b_chords(rng, spec, ctx):
    d = b_segments(rng, spec, ctx)
    pool = rng.sample(CHORD_LABELS, rng.randrange(2, 9))
    d["labels"] = [rng.choice(pool) for _ in range(len(d["iv"]))]
    return d


def b_hier(rng, spec, ctx):
    levels = spec.get("levels") or rng.choice([1, 2, 2, 3])
    ivs, labs = [], []
    n = 1
    for _ in range(levels):
        n = n + rng.randrange(1, 4)
        iv = _partition(rng, n, ctx["T"])
        ivs.append(iv)
        labs.append([rng.choice(SEG_LABELS[:5]) for _ in range(len(iv))])
    return {"ivs": ivs, "labs": labs}


def b_melody(rng, spec, ctx):
    np = _np()
    n = _n(rng, spec, 0, 40)
    hop = spec.get("hop") or rng.choice([0.01, 0.01, 0.0058, 0.02])
    t0 = rng.choice([0.0, 0.0, hop])
    time = np.array([t0 + i * hop for i in range(n)], dtype=float)
    f = []
    base = rng.uniform(100, 800)
    for i in range(n):
        r = rng.random()
        if r < 0.25:
            f.append(0.0)
        elif r < 0.35 and spec.get("role") == "est":
            f.append(-base * rng.uniform(0.9, 1.1))
        else:
            f.append(base * rng.choice([1.0, 1.0, 2.0, 0.5, 1.02]) * rng.uniform(0.98, 1.02))
    L = ctx["L"]
    fv = np.array([rng.choice([0.0, 1.0, 1.0, round(rng.random(), 2)]) for _ in range(L)], dtype=float)
    cent = np.array([0.0 if rng.random() < 0.2 else rng.uniform(2000, 7000) for _ in range(L)], dtype=float)
    return {"time": time, "freq": np.array(f, dtype=float),
            "voicing": np.array([rng.choice([0.0, 1.0, round(rng.random(), 2)]) for _ in range(n)], dtype=float),
            "reward": np.array([rng.choice([1.0, 1.0, 0.5, round(rng.random(), 2)]) for _ in range(n)], dtype=float),
            "fv": fv, "cent": cent}


def b_multipitch(rng, spec, ctx):
    np = _np()
    if _derive(spec, ctx, "multipitch"):
        base = b_multipitch(_base_rng(ctx, "multipitch"), {"role": "ref", "seed": 0, "n": None}, ctx)
        freqs = []
        for fr in base["freqs"]:
            out = [f * rng.choice([1.0, 1.0, 1.0, 1.02, 2.0, 0.5, 1.06]) for f in fr.tolist() if rng.random() > 0.15]
            if rng.random() < 0.15:
                out.append(rng.uniform(60, 2000))
            freqs.append(np.array(sorted(out), dtype=float))
        time = base["time"] + rng.choice([0.0, 0.0, 0.004])
        d = dict(base)
        d.update({"time": np.array(time, dtype=float), "freqs": freqs})
        return d
    n = _n(rng, spec, 0, 25)
    hop = rng.choice([0.01, 0.0116, 0.02])
    time = np.array([i * hop for i in range(n)], dtype=float)
    freqs = []
    for _ in range(n):
        k = rng.choice([0, 1, 1, 2, 3])
        freqs.append(np.array(sorted(rng.uniform(60, 2000) for _ in range(k)), dtype=float))
    return {"time": time, "freqs": freqs,
            "tp": np.array([float(rng.randrange(0, 3)) for _ in range(ctx["L"])]),
            "nref": np.array([float(rng.randrange(2, 5)) for _ in range(ctx["L"])]),
            "nest": np.array([float(rng.randrange(2, 5)) for _ in range(ctx["L"])])}


def b_notes(rng, spec, ctx):
    np = _np()
    if _derive(spec, ctx, "notes"):
        base = b_notes(_base_rng(ctx, "notes"), {"role": "ref", "seed": 0, "n": None}, ctx)
        iv, pitch, vel = [], [], []
        for (a, b), p, v in zip(base["iv"].tolist(), base["pitch"].tolist(), base["vel"].tolist()):
            r = rng.random()
            if r < 0.15:
                continue
            a2 = round(max(0.0, a + rng.choice([0.0, 0.0, 0.02, -0.04, 0.08])), 3)
            b2 = round(max(a2 + 0.01, b + rng.choice([0.0, 0.0, 0.03, -0.1, 0.3])), 3)
            iv.append([a2, b2])
            pitch.append(p * rng.choice([1.0, 1.0, 1.0, 1.01, 2.0, 2 ** (1 / 12.0)]))
            vel.append(max(1.0, min(127.0, v + rng.choice([0, 0, 5, -20]))))
        n = len(iv)
        return {"iv": np.array(iv, dtype=float).reshape(n, 2), "pitch": np.array(pitch, dtype=float), "vel": np.array(vel, dtype=float)}
    n = _n(rng, spec, 0, 12)
    iv, t = [], 0.0
    for _ in range(n):
        t += rng.choice([0.0, 0.1, 0.5, rng.uniform(0, 1)])
        d = rng.uniform(0.05, 1.5)
        iv.append([round(t, 3), round(t + d, 3) if round(t + d, 3) > round(t, 3) else round(t, 3) + 0.01])
    pitch = [440.0 * 2 ** (rng.randrange(-24, 25) / 12.0) * rng.choice([1.0, 1.0, 1.01]) for _ in range(n)]
    vel = [float(rng.randrange(1, 128)) for _ in range(n)]
    return {"iv": np.array(iv, dtype=float).reshape(n, 2), "pitch": np.array(pitch, dtype=float),
            "vel": np.array(vel, dtype=float)}


def b_patterns(rng, spec, ctx):
    if _derive(spec, ctx, "patterns"):
        base = b_patterns(_base_rng(ctx, "patterns"), {"role": "ref", "seed": 0, "n": None}, ctx)["pat"]
        pats = []
        for pat in base:
            r = rng.random()
            if r < 0.2:
                continue
            occs = []
            for occ in pat:
                q = rng.random()
                if q < 0.2 and len(pat) > 1:
                    continue
                if q > 0.7:
                    occ = [(a + rng.choice([0.0, 0.5]), b + rng.choice([0.0, 0.0, 1.0])) for a, b in occ]
                    if len(occ) > 1 and rng.random() < 0.5:
                        occ = occ[:-1]
                occs.append(list(occ))
            if occs:
                pats.append(occs)
        if rng.random() < 0.5 or not pats:
            pats.append([[(round(rng.uniform(30, 40), 1), float(rng.randrange(50, 80))) for _ in range(rng.randrange(1, 4))]])
        rng.shuffle(pats)
        return {"pat": pats}
    n = _n(rng, spec, 1, 4)
    pats = []
    for _ in range(n):
        occs = []
        base = [(round(rng.uniform(0, 20), 1), float(rng.randrange(50, 80))) for _ in range(rng.randrange(1, 5))]
        for k in range(rng.randrange(1, 4)):
            sh = k * rng.choice([4.0, 8.0])
            occs.append([(a + sh, b + (0 if rng.random() < 0.8 else 1)) for a, b in base])
        pats.append(occs)
    return {"pat": pats}


def b_key(rng, spec, ctx):
    return {"key": rng.choice(KEYS)}


def b_tempo(rng, spec, ctx):
    np = _np()
    a = rng.uniform(40, 100)
    return {"tempi": np.array([a, a * rng.choice([2, 3, 1.5])], dtype=float), "weight": rng.choice([0.0, 0.5, 1.0, 0.3])}


def b_align(rng, spec, ctx):
    np = _np()
    n = ctx["N"]
    ts = sorted(rng.uniform(0, ctx["T"]) for _ in range(n))
    return {"ts": np.array(ts, dtype=float)}


def b_sources(rng, spec, ctx):
    np = _np()
    nsrc, nsampl, nchan = ctx["nsrc"], ctx["nsampl"], ctx["nchan"]
    g = np.random.RandomState(rng.randrange(2 ** 31))
    src = g.randn(nsrc, nsampl)
    if spec.get("role") == "est":
        mix = np.eye(nsrc) + 0.3 * g.randn(nsrc, nsrc)
        src = mix.dot(src) + 0.1 * g.randn(nsrc, nsampl)
    if spec.get("dropout"):
        # drop-out: one source is exactly silent over the first half of the stream (silent windows
        # for the framewise functions; the stream as a whole stays non-silent)
        src[rng.randrange(nsrc), : nsampl // 2 + 8] = 0.0
    img = np.stack([src * (1.0 + 0.2 * c) for c in range(nchan)], axis=-1)
    return {"src": np.ascontiguousarray(src), "img": np.ascontiguousarray(img)}


def b_sonify(rng, spec, ctx):
    np = _np()
    n = _n(rng, spec, 1, 6)
    g = np.random.RandomState(rng.randrange(2 ** 31))
    times = np.cumsum(g.uniform(0.05, 0.2, size=n))
    k = rng.randrange(1, 4)
    return {"times": times, "chroma": np.abs(g.randn(12, n)), "gram": np.abs(g.randn(k, n)),
            "freqs": np.array(sorted(rng.uniform(100, 600) for _ in range(k))),
            "contour": np.array([rng.choice([0.0, rng.uniform(100, 500), rng.uniform(100, 500), float("nan"), -50.0]) for _ in range(n)]),
            "amps": np.abs(g.randn(n)),
            "iv": np.array(list(zip(np.concatenate(([0.0], times[:-1])), times))),
            "labels": [rng.choice(CHORD_LABELS) for _ in range(n)]}


def b_chordlabels(rng, spec, ctx):
    np = _np()
    L = ctx["L"]
    pool = rng.sample(CHORD_LABELS, rng.randrange(2, 10))
    return {"labels": [rng.choice(pool) for _ in range(L)],
            "weights": np.array([rng.uniform(0.1, 3) for _ in range(L)]),
            "comparisons": np.array([rng.choice([0.0, 1.0, -1.0, 1.0]) for _ in range(L)]),
            "bitmaps": np.array([[rng.randrange(2) for _ in range(12)] for _ in range(L)]),
            "roots": np.array([rng.randrange(12) for _ in range(L)]),
            "ext": [rng.choice(SCALE_DEGREES) for _ in range(rng.randrange(0, 3))]}


def b_kwargs(rng, spec, ctx):
    return {"kw": dict(rng.sample([("window", 0.1), ("beta", 2.0), ("frame_size", 0.2), ("trim", True),
                                   ("onset_tolerance", 0.1), ("f_measure_threshold", 0.1), ("bins", 21),
                                   ("cent_tolerance", 80), ("strict", True), ("tol", 0.1), ("n", 3),
                                   ("unused_key", 1), ("p_score_threshold", 0.3)], rng.randrange(0, 5)))}


BUILDERS = {
    "events": b_events, "segments": b_segments, "chords": b_chords, "hier": b_hier, "melody": b_melody,
    "multipitch": b_multipitch, "notes": b_notes, "patterns": b_patterns, "key": b_key, "tempo": b_tempo,
    "align": b_align, "sources": b_sources, "sonify": b_sonify, "chordlabels": b_chordlabels, "kwargs": b_kwargs,
}


def gen_ctx(rng):
    ctx = _gen_ctx(rng)
    ctx["base_seed"] = rng.getrandbits(40)
    ctx["nsrc"] = rng.choice([1, 2, 2])
    ctx["nsampl"] = 2 * ctx["nsrc"] * 512 + rng.choice([0, 100, 600])
    return ctx


def _gen_ctx(rng):
    return {"T": rng.choice([10.0, 20.0, 30.5, 12.345]), "L": rng.randrange(1, 30), "N": rng.randrange(2, 15),
            "nsrc": 0, "nsampl": 0, "nchan": rng.choice([1, 2])}
