"""C20 -- annotation files load back to exactly what they encode.

Storage-fault simulation: writers (model side) put annotations into a simulated file system,
storage faults corrupt them, the REAL mir_eval loaders read them through five access paths
over a simulated raw device with short reads / EINTR / EIO, and every outcome is judged
against `model_io.refparse` (DESIGN.md section 4).
"""

import copy
import io
import os
import re
import shutil
import tempfile

from . import core, model_io as M, seams

PROP = "C20"
RUNS = {"quick": 4000, "thorough": 120000}
RUN_TIMEOUT = 120.0
ACCESS = ["path", "stringio", "wrapper", "realpath", "realhandle", "reuse_stringio", "reuse_wrapper", "shorttext", "offset_stringio"]
ASSUMPTIONS = [
    "the oracle (model_io.refparse + convention model) is a second, independent reading of the loader documentation; "
    "content about which the documentation is silent is UNSPEC and never judged",
    "storage is simulated: SimFS/SimRaw stand in for the OS file layer below Python's real BufferedReader/TextIOWrapper; "
    "one swarm configuration goes through real temporary files to validate the stub",
    "a clean batch is evidence over the sampled files, faults and access paths only (plus, in the thorough tier, every "
    "truncation offset and every position x flip alphabet of the walked files)",
]
RULE = ("each run: 4-12 annotation files over the ten documented text formats written by model writers (random float "
        "spellings, delimiters, comment markers, unicode labels with inner whitespace, LF/CRLF), corrupted by 0-3 storage "
        "faults (torn/lost/dup/swap line, flip/delete/insert char, zero tail, empty), loaded by the real loaders by path "
        "(mir_eval.io.open seam), StringIO, TextIOWrapper-over-SimRaw object, real temp path/handle, reused handles, "
        "with device faults (short reads, EINTR, EIO) and rewrites between loads; non-trivial+distinct = distinct "
        "(loader, access path, storage fault kinds, oracle verdict, observed outcome class) with a non-empty file")

_INT = re.compile(r"(?<![\w.])\d+(?![\w.])")


# --------------------------------------------------------------------------------------
# plan generation
# --------------------------------------------------------------------------------------
def _gen_huge(rng, fmt):
    """> 1 MiB of well-formed content (size caps, chunked readers and buffer boundaries only show here)."""
    n = rng.randrange(45000, 70000)
    if fmt == "patterns":
        return [[[(i * 0.25 + o, float(40 + (i * 7 + o) % 50)) for i in range(n // 12)] for o in range(3)] for _ in range(4)]
    if fmt in ("events", "labeled_events"):
        return [((i * 0.37,) if fmt == "events" else (i * 0.37, "label %d" % i)) for i in range(n)]
    if fmt in ("intervals", "labeled_intervals", "valued_intervals"):
        base = [(i * 0.5, i * 0.5 + 0.5) for i in range(n)]
        return [b if fmt == "intervals" else (b + (("seg %d" % i),) if fmt == "labeled_intervals" else b + (440.0 + i % 100,))
                for i, b in enumerate(base)]
    if fmt == "time_series":
        return [(i * 0.01, 100.0 + i % 300) for i in range(n)]
    if fmt == "ragged":
        return [(i * 0.01, [100.0 + (i % 50), 200.0 + (i % 70)][: i % 3]) for i in range(n)]
    return None


def _gen_file(rng, cfg, fmt=None):
    fmt = fmt or rng.choice(M.FORMATS)
    style = M.gen_style(rng, fmt)
    flavor = "wild" if rng.random() < cfg["wild_p"] else "valid"
    rows = M.gen_rows(rng, fmt, flavor=flavor)
    if fmt == "ragged" and rng.random() < 0.3:
        rows = M.gen_rows(rng, "ragged_int")
        flavor = "valid"
        style = dict(style, dtype="int")
    if cfg.get("huge") and not cfg.get("_huge_done"):
        big = _gen_huge(rng, fmt)
        if big is not None:
            rows, flavor = big, "valid"
            cfg["_huge_done"] = True
    clean_text = M.render(rng, fmt, rows, style) if style.get("dtype") != "int" else _render_int(rng, rows, style)
    text, faults = clean_text, []
    if cfg["fault_p"] and rng.random() < cfg["fault_p"]:
        k = 1 if cfg["single_fault"] else rng.choice([1, 2, 3])
        for _ in range(k):
            r = M.apply_fault(rng, text, rng.choice(cfg["kinds"]))
            if r is not None:
                text, d = r
                faults.append(d)
    dev = {}
    if cfg["dev"].get("short") and rng.random() < 0.7:
        dev["chunks"] = [rng.choice([1, 2, 3, 5, 7, 16, 64]) for _ in range(rng.randrange(1, 5))]
    if cfg["dev"].get("eintr") and rng.random() < 0.6:
        dev["eintr"] = sorted(set(rng.randrange(0, 12) for _ in range(rng.randrange(1, 4))))
    if cfg["dev"].get("eio") and rng.random() < 0.4:
        nb = len(text.encode("utf-8", "surrogatepass"))
        dev["eio_at" if rng.random() < 0.6 else "eio_once_at"] = rng.randrange(0, nb + 3)
    return {"fmt": fmt, "style": style, "text": text, "clean": not faults, "rows": rows if not faults else None,
            "faults": faults, "dev": dev, "flavor": flavor}


def _render_int(rng, rows, style):
    """ragged rows with integer value tokens (time stamps keep any float spelling)"""
    sep = {"ws": " ", "ws_explicit": "\t", "tab": "\t", "comma": ",", "semi": ";"}[style["delim"]]
    lines = [sep.join([M.fmt_float(t, rng.choice(M.FLOAT_STYLES))] + ["%d" % int(v) for v in vals]) for t, vals in rows]
    text = style["eol"].join(lines)
    return text + (style["eol"] if lines and style["final_newline"] else "")


def gen_plan(rng, tier, i):
    fault_p = rng.choice([0.0, 0.0, 0.3, 0.6, 1.0, 1.0])
    cfg = {
        "bufsize": rng.choice([16, 64, 512, 8192]),
        "fault_p": fault_p,
        "single_fault": rng.random() < 0.6,
        "kinds": rng.sample(M.FAULT_KINDS, rng.randrange(2, len(M.FAULT_KINDS) + 1)),
        "wild_p": rng.choice([0.0, 0.15, 0.4]),
        "dev": {"short": rng.random() < 0.5, "eintr": rng.random() < 0.35, "eio": rng.random() < 0.25},
        "real": rng.random() < 0.12,
        "huge": i % 400 == 7,
    }
    files, ops = {}, []
    nfiles = rng.randrange(4, 13)
    for k in range(nfiles):
        name = "f%s.txt" % "abcdefghijklm"[k]
        files[name] = _gen_file(rng, cfg)
    access = [a for a in ACCESS if cfg["real"] or not a.startswith("real")]
    for name in files:
        for _ in range(rng.choice([1, 2, 2, 3])):
            ops.append({"op": "load", "file": name, "access": rng.choice(access)})
    rng.shuffle(ops)
    # rewrites: the writer replaces a file between two loads
    for _ in range(rng.choice([0, 1, 2, 3])):
        name = rng.choice(sorted(files))
        new = _gen_file(rng, cfg, fmt=files[name]["fmt"] if rng.random() < 0.7 else None)
        if rng.random() < 0.3:
            # same-size rewrite: one digit of the current content replaced (size and, almost always, the
            # whole-second mtime stay the same -- what a cheap "has it changed" test would look at)
            old_text = files[name]["text"]
            pos = [k for k, ch in enumerate(old_text) if ch.isdigit()]
            if pos:
                k = rng.choice(pos)
                d = rng.choice([c for c in "123456789" if c != old_text[k]])
                new = dict(files[name], text=old_text[:k] + d + old_text[k + 1:], clean=False, rows=None,
                           faults=list(files[name]["faults"]) + [{"kind": "same_size_rewrite"}])
        pos = rng.randrange(0, len(ops) + 1)
        ops.insert(pos, {"op": "rewrite", "file": name, "spec": new})
        for _ in range(rng.choice([1, 2])):
            ops.insert(rng.randrange(pos + 1, len(ops) + 1), {"op": "load", "file": name, "access": rng.choice(access)})
    return {"prop": PROP, "cfg": cfg, "files": files, "ops": ops}


# --------------------------------------------------------------------------------------
# execution
# --------------------------------------------------------------------------------------
def _call(fn, *a, **k):
    try:
        return ("ok", fn(*a, **k))
    except Exception as e:  # noqa: BLE001 -- the outcome *is* the exception
        return ("exc", e)


def row_named(msg, filename_str, bad_lines, rows):
    """Does the error message name one of the bad rows (0- or 1-based physical line number) as a
    separate integer token?  Only the file name is taken out first.  The echoed line is NOT
    removed (its position in the message is a formatting detail the property does not fix, and
    removing text by content could delete the row number itself), so a row whose content happens
    to contain its own number passes even if the message names no row: accepted loss of power."""
    m = msg.replace(filename_str, " ")
    toks = set(int(t) for t in _INT.findall(m))
    return any((r in toks) or (r - 1 in toks) for r in rows)


def judge(fmt, verdict, outcome, warns, filename_str, text, eio_fired):
    """-> (list of (cls, detail), outcome_class)"""
    kind = verdict["kind"]
    status, val = outcome
    loader = M.LOADER[fmt]
    if status == "exc" and isinstance(val, OSError) and eio_fired:
        return [], "eio_propagated"
    if kind == "UNSPEC":
        return [], "unspec_" + status
    if kind == "VALUES":
        if status == "exc":
            return [("RAISED_ON_PARSABLE", "%s raised %s: %s on content the format defines" % (
                loader, type(val).__name__, core.scrub(str(val))[:200]))], "raised"
        want = M.build_value(fmt, verdict["rows"])
        if verdict.get("int_values") is not None:
            import numpy as np

            want = (want[0], [np.array(vals, dtype=int) for vals in verdict["int_values"]])
        out = []
        if core.digest(want) != core.digest(val):
            out.append(("WRONG_VALUE", "%s returned %s, file encodes %s" % (loader, core.brief(val), core.brief(want))))
        if verdict["conv"] is True and not warns:
            out.append(("NO_WARNING", "%s returned convention-violating content without a warning" % loader))
        return out, ("value_warn" if warns else "value")
    if kind == "ROW_ERROR":
        if status == "ok":
            return [("ROW_ERROR_MISSED", "%s returned %s for a file whose row(s) %s are malformed" % (
                loader, core.brief(val), sorted(verdict["rows"])))], "value"
        if not isinstance(val, ValueError):
            return [("ROW_ERROR_WRONG_TYPE", "%s raised %s (%s) for malformed row(s) %s" % (
                loader, type(val).__name__, core.scrub(str(val))[:120], sorted(verdict["rows"])))], "raised_other"
        if verdict.get("any_valueerror"):
            return [], "valueerror"
        lines = M.physical_lines(text) or []
        bad_lines = [lines[r - 1] for r in verdict["rows"] if 0 < r <= len(lines)]
        if not row_named(str(val), filename_str, bad_lines, verdict["rows"]):
            return [("ROW_ERROR_NO_ROW", "%s: ValueError %r does not name row %s" % (
                loader, core.scrub(str(val))[:160], sorted(verdict["rows"])))], "valueerror_norow"
        return [], "valueerror_row"
    if kind == "DOC_ERROR":
        if status == "ok":
            return [("DOC_ERROR_MISSED", "%s returned %s for %s" % (loader, core.brief(val), verdict["why"]))], "value"
        if not isinstance(val, ValueError):
            return [("DOC_ERROR_WRONG_TYPE", "%s raised %s for %s" % (loader, type(val).__name__, verdict["why"]))], "raised_other"
        return [], "valueerror"
    raise AssertionError(kind)


def _load_once(mio, fs, spec, name, access, tmpdir, stats):
    """One load through one access path -> (outcome, warnings, filename_str, extra)"""
    fmt, style, text = spec["fmt"], spec["style"], spec["text"]
    fn = getattr(mio, M.LOADER[fmt])
    kw = M.loader_kwargs(style) if fmt != "patterns" else {}
    if style.get("dtype") == "int":
        kw["dtype"] = int
    simpath = os.path.join(tmpdir, name)  # a real path with the same content: os.stat()/exists() see a real file
    extra = {}
    seams.WARN.take()
    if access == "path":
        with seams.PatchedOpen(fs):
            n0 = len(fs.handles)
            out = _call(fn, simpath, **kw)
            if len(fs.handles) > n0 and not fs.handles[-1][1].closed:
                stats.inc("probe.path_handle_left_open")
        fname = simpath
    elif access in ("stringio", "reuse_stringio"):
        h = io.StringIO(text)
        fname = str(h)
        out = _call(fn, h, **kw)
        if h.closed:
            stats.inc("probe.caller_handle_closed")
        elif access == "reuse_stringio":
            h.seek(0)
            extra["second"] = _call(fn, h, **kw)
    elif access in ("wrapper", "reuse_wrapper"):
        h, raw = fs.open_object(simpath)
        fname = str(h)
        out = _call(fn, h, **kw)
        if h.closed:
            stats.inc("probe.caller_handle_closed")
        elif access == "reuse_wrapper" and not fs.dev.get(simpath):
            h.seek(0)
            extra["second"] = _call(fn, h, **kw)
    elif access == "offset_stringio":
        # the caller has already consumed the first physical line of its handle (a header it reads itself): the
        # loader must load the rest, from where the handle stands; afterwards the caller rewinds and loads everything
        h = io.StringIO(text)
        h.readline()
        fname = str(h)
        extra["rest_text"] = text[h.tell():]
        extra["rest"] = _call(fn, h, **kw)
        extra["rest_warns"] = seams.WARN.take()
        if h.closed:
            stats.inc("probe.caller_handle_closed")
            h = io.StringIO(text)
        h.seek(0)
        out = _call(fn, h, **kw)
    elif access == "shorttext":
        # universal-newline translation is the text layer's job; this stream hands out already-translated text
        h = seams.SimText(text.replace("\r\n", "\n"), chunks=spec.get("dev", {}).get("chunks") or [5, 11, 3], fired=fs.fired)
        fname = str(h)
        out = _call(fn, h, **kw)
    elif access == "realpath":
        fname = os.path.join(tmpdir, name)
        out = _call(fn, fname, **kw)
    elif access == "realhandle":
        with open(os.path.join(tmpdir, name), "r") as h:
            fname = str(h)
            out = _call(fn, h, **kw)
    else:
        raise KeyError(access)
    return out, seams.WARN.take(), fname, extra


def outcome_digest(out):
    return core.digest(out[1]) if out[0] == "ok" else "exc:" + type(out[1]).__name__


def execute(plan, want_logs=False):
    core.import_target()
    import mir_eval.io as mio

    if "walk" in plan:
        return _execute_walk(plan, want_logs)
    log = core.EventLog(keep=want_logs)
    stats = core.Stats()
    seams.WARN.install()
    fired = {}
    fs = SimFSFor(plan, fired)
    cur = {name: spec for name, spec in plan["files"].items()}
    history = {name: [] for name in cur}
    tmpdir = tempfile.mkdtemp(prefix="mirsim-c20-")
    violations = []
    log.add("cfg", sorted((k, repr(v)) for k, v in plan["cfg"].items()))
    try:
        for name, spec in cur.items():
            _store(fs, tmpdir, name, spec)
        for n, op in enumerate(plan["ops"]):
            name = op["file"]
            if name not in cur:
                continue
            if op["op"] == "rewrite":
                cur[name] = op["spec"]
                _store(fs, tmpdir, name, op["spec"])
                stats.inc("fault.rewrite")
                log.add("rewrite", n, name, core.digest(op["spec"]["text"]))
                continue
            spec = cur[name]
            fmt, text = spec["fmt"], spec["text"]
            verdict = M.refparse(fmt, text, spec["style"]["delim"], spec["style"]["comment"])
            if spec["style"].get("dtype") == "int":
                verdict = _int_verdict(verdict, text, spec["style"])
            # guard on the oracle itself: a fault-free file must parse back to the model annotation
            if spec.get("clean") and spec.get("rows") is not None and spec.get("flavor") == "valid":
                _oracle_guard(fmt, spec, verdict)
            before = dict(fired)
            out, warns, fname, extra = _load_once(mio, fs, spec, name, op["access"], tmpdir, stats)
            delta = {k: fired.get(k, 0) - before.get(k, 0) for k in fired if fired.get(k, 0) != before.get(k, 0)}
            for k, v in delta.items():
                stats.inc("fault.dev." + k, v)
            found, oclass = judge(fmt, verdict, out, warns, fname, text, bool(delta.get("eio") or delta.get("eio_once")))
            if "rest" in extra:
                rest_text = extra["rest_text"]
                rv = M.refparse(fmt, rest_text, spec["style"]["delim"], spec["style"]["comment"])
                if spec["style"].get("dtype") == "int":
                    rv = _int_verdict(rv, rest_text, spec["style"])
                if fmt == "patterns" and rv["kind"] != "UNSPEC" and "pattern" not in text[: len(text) - len(rest_text)]:
                    rv = {"kind": "UNSPEC", "why": "pattern file entered after its first line"}
                f2, _ = judge(fmt, rv, extra["rest"], extra["rest_warns"], fname, rest_text, False)
                found.extend(("OFFSET_" + cls if not cls.startswith("ROW") else cls, "after the caller consumed the first line: " + d) for cls, d in f2)
                stats.inc("probe.offset_load")
            if "second" in extra and outcome_digest(extra["second"]) != outcome_digest(out):
                found.append(("REUSE_DIFFERS", "%s on a rewound handle: %s then %s" % (
                    M.LOADER[fmt], outcome_digest(out), outcome_digest(extra["second"]))))
            od = outcome_digest(out)
            for cls, detail in found:
                if cls == "WRONG_VALUE" and od in history[name]:
                    cls = "STALE_VALUE"
                violations.append(core.violation(cls, M.LOADER[fmt], "op %d %s via %s: %s" % (n, name, op["access"], detail)))
            if verdict["kind"] == "VALUES":
                history[name].append(core.digest(M.build_value(fmt, verdict["rows"])))
            # statistics
            fkinds = tuple(sorted(set(f["kind"] for f in spec["faults"])))
            stats.inc("loads")
            stats.inc("verdict." + verdict["kind"])
            stats.inc("loader.%s.%s" % (M.LOADER[fmt], verdict["kind"]))
            stats.inc("access." + op["access"])
            for fk in fkinds:
                stats.inc("fault.storage." + fk)
            if warns:
                stats.inc("probe.warning_path." + M.LOADER[fmt])
            if out[0] == "exc":
                stats.inc("probe.error_path." + M.LOADER[fmt])
            if text:
                stats.see("tuples", (M.LOADER[fmt], op["access"], fkinds, verdict["kind"], oclass))
                stats.see("contents", core.digest(text)[:12])
            log.add("load", n, name, op["access"], verdict["kind"], od, len(warns), sorted(delta.items()))
    finally:
        if tmpdir:
            shutil.rmtree(tmpdir, ignore_errors=True)
    return {"violations": violations, "stats": stats.dump(), "log_digest": log.digest(), "n_events": log.n,
            "log_events": log.events if want_logs else None}


def _int_verdict(verdict, text, style):
    """dtype=int: value columns must be integer literals.  Only a file whose value tokens are all plain
    integers is judged (a fault that turns '60' into '6.0' or '6e1' meets numpy's str->int rules, which the
    documentation does not spell out): everything else is UNSPEC."""
    if verdict["kind"] != "VALUES":
        return {"kind": "UNSPEC", "why": "dtype=int on a file that is not well-formed"}
    lines = M.physical_lines(text) or []
    int_rows = []
    for line in lines:
        if style["comment"] is not None and line.startswith(M.COMMENT_STARTS.get(style["comment"], style["comment"])):
            continue
        toks = M.split_tokens(line.strip(), style["delim"], -1)
        vals = []
        for tk in toks[1:]:
            t = tk.strip()
            if not (t.isascii() and t.isdigit()) or len(t) > 18:
                return {"kind": "UNSPEC", "why": "non-integer (or > 18 digit) token with dtype=int"}
            vals.append(int(t))  # exact: never through a float
        int_rows.append(vals)
    return dict(verdict, int_values=int_rows)


def SimFSFor(plan, fired):
    return seams.SimFS(bufsize=plan["cfg"].get("bufsize", 8192), fired=fired)


def _store(fs, tmpdir, name, spec):
    """The durable content of a path: registered with the simulated device AND written to a real file of the same
    name, so that anything the library asks the OS about the path (stat, exists, size, mtime) is answered
    truthfully while `open` goes through the simulated device."""
    data = spec["text"].encode("utf-8")
    path = os.path.join(tmpdir, name)
    fs.files[path] = data
    fs.dev[path] = spec.get("dev") or {}
    with open(path, "wb") as f:
        f.write(data)


def _oracle_guard(fmt, spec, verdict):
    """refparse(write(model)) must equal the model -- otherwise the oracle (not mir_eval) is
    wrong, which is a harness error, never a violation."""
    if verdict["kind"] not in ("VALUES",):
        if fmt in ("key", "tempo"):
            return
        raise AssertionError("oracle guard: clean %s file judged %r\n%r" % (fmt, verdict, spec["text"]))
    want = core.digest(M.build_value(fmt, _norm_rows(fmt, spec["rows"])))
    got = core.digest(M.build_value(fmt, verdict["rows"]))
    if want != got:
        raise AssertionError("oracle guard: refparse(render(model)) != model for %s\n%r\n%r\n%r" % (
            fmt, spec["text"], spec["rows"], verdict["rows"]))


def _norm_rows(fmt, rows):
    if fmt == "patterns":
        return rows
    return rows


# --------------------------------------------------------------------------------------
# exhaustive walks (thorough tier): every crash point of the writer, every position x flip alphabet
# --------------------------------------------------------------------------------------
def gen_walk_plan(rng, i):
    cfg = {"bufsize": 8192, "fault_p": 0.0, "single_fault": True, "kinds": [], "wild_p": 0.0,
           "dev": {}, "real": False}
    while True:
        spec = _gen_file(rng, cfg, fmt=M.FORMATS[i % len(M.FORMATS)])
        if 0 < len(spec["text"]) <= 220:
            break
        spec = None
    return {"prop": PROP, "cfg": cfg, "walk": {"spec": spec, "mode": ["torn", "flip", "del"][(i // len(M.FORMATS)) % 3]}}


def _execute_walk(plan, want_logs):
    import mir_eval.io as mio

    log = core.EventLog(keep=want_logs)
    stats = core.Stats()
    seams.WARN.install()
    spec = plan["walk"]["spec"]
    mode = plan["walk"]["mode"]
    text = spec["text"]
    fmt = spec["fmt"]
    variants = []
    if mode == "torn":
        variants = [(("torn", off), text[:off]) for off in range(len(text))]
    elif mode == "del":
        variants = [(("del_char", off), text[:off] + text[off + 1:]) for off in range(len(text))]
    else:
        for off, c in enumerate(text):
            if c in "\r\n":
                continue
            for new in M.flip_alphabet(c):
                if new != c:
                    variants.append((("flip", off, new), text[:off] + new + text[off + 1:]))
    violations = []
    fs = seams.SimFS()
    for tag, vtext in variants:
        vspec = dict(spec, text=vtext, clean=False, rows=None, faults=[{"kind": tag[0]}], dev={})
        verdict = M.refparse(fmt, vtext, spec["style"]["delim"], spec["style"]["comment"])
        if spec["style"].get("dtype") == "int":
            verdict = _int_verdict(verdict, vtext, spec["style"])
        out, warns, fname, _ = _load_once(mio, fs, vspec, "w.txt", "stringio", "/nonexistent", stats)
        found, oclass = judge(fmt, verdict, out, warns, fname, vtext, False)
        stats.inc("walk.loads")
        stats.inc("walk.%s" % tag[0])
        stats.inc("walk.verdict." + verdict["kind"])
        stats.see("walk_tuples", (M.LOADER[fmt], tag[0], verdict["kind"], oclass))
        log.add("walk", tag, verdict["kind"], outcome_digest(out))
        for cls, detail in found:
            concrete = {"prop": PROP, "cfg": plan["cfg"], "files": {"w.txt": vspec},
                        "ops": [{"op": "load", "file": "w.txt", "access": "stringio"}]}
            v = core.violation(cls, M.LOADER[fmt], "walk %r: %s" % (tag, detail))
            v["plan"] = concrete
            violations.append(v)
    stats.inc("walk.files")
    return {"violations": violations, "stats": stats.dump(), "log_digest": log.digest(), "n_events": log.n,
            "log_events": log.events if want_logs else None}


class _WalkEngine(object):
    """View of this module as an engine whose plans are walk plans (reuses the worker pool)."""
    PROP = PROP
    RUN_TIMEOUT = 300.0

    @staticmethod
    def gen_plan(rng, tier, i):
        return gen_walk_plan(rng, i)

    execute = staticmethod(execute)

    @staticmethod
    def describe(plan, res):
        return {"walk": plan["walk"]["mode"], "fmt": plan["walk"]["spec"]["fmt"], "text": plan["walk"]["spec"]["text"]}


WALK_FILES = {"quick": 60, "thorough": 2000}


def extra_phase(tier, seed, agg):
    """Exhaustive single-fault walks; results are merged into the campaign aggregate."""
    n = int(os.environ.get("VERIF_WALK_FILES", "0")) or WALK_FILES[tier]
    sub = core.run_campaign(_WalkEngine, tier, seed + 7919, n)
    agg["stats"].merge(sub["stats"])
    agg["harness"].extend(sub["harness"])
    for rec in sub["violations"]:
        # one record per concrete faulted file, so that minimisation starts from a one-load plan
        for v in rec["violations"]:
            p = v.pop("plan")
            p["run"] = rec["run"]
            p["run_seed"] = rec["plan"].get("run_seed")
            agg["violations"].append({"run": rec["run"], "plan": p, "violations": [v], "log": rec["log"]})
    return {"walk_files": n, "walk_events": sum(r["events"] for r in sub["runs"]),
            "walk_samples": sub["samples"][:2]}


# --------------------------------------------------------------------------------------
# minimisation
# --------------------------------------------------------------------------------------
def size(plan):
    if "walk" in plan:
        return 10 ** 6
    s = 10 * len(plan["ops"])
    used = set(op["file"] for op in plan["ops"])
    for name, spec in plan["files"].items():
        s += 5 + M.n_lines(spec["text"]) + len(spec["text"]) / 1000.0 + 3 * len(spec.get("dev") or {})
    for op in plan["ops"]:
        if op["op"] == "rewrite":
            s += M.n_lines(op["spec"]["text"]) + len(op["spec"]["text"]) / 1000.0
        elif op["access"] != "stringio":
            s += 1
    return s


def _shrink_text(spec, test_with):
    n = M.n_lines(spec["text"])
    if n <= 1:
        return spec

    def t(keep_list):
        cand = dict(spec, text=M.drop_lines(spec["text"], set(keep_list)), clean=False, rows=None)
        return test_with(cand)

    keep = core_dd(list(range(n)), t)
    if len(keep) < n:
        return dict(spec, text=M.drop_lines(spec["text"], set(keep)), clean=False, rows=None)
    return spec


_BUDGET = [None]


def core_dd(items, t):
    return core.ddmin_list(items, t, _BUDGET[0])


def shrink(plan, test, budget):
    _BUDGET[0] = budget
    plan = copy.deepcopy(plan)

    # 1. drop ops
    def t_ops(ops):
        return test(dict(plan, ops=ops))

    plan["ops"] = core.ddmin_list(plan["ops"], t_ops, budget)
    # 2. drop unreferenced files
    used = set(op["file"] for op in plan["ops"])
    cand = dict(plan, files={k: v for k, v in plan["files"].items() if k in used})
    if len(cand["files"]) < len(plan["files"]) and test(cand):
        plan = cand
    # 3. simplify configuration: no device faults, default buffer, StringIO access
    for name in list(plan["files"]):
        if plan["files"][name].get("dev"):
            cand = copy.deepcopy(plan)
            cand["files"][name]["dev"] = {}
            if test(cand):
                plan = cand
    for j, op in enumerate(plan["ops"]):
        if op["op"] == "load" and op["access"] != "stringio":
            cand = copy.deepcopy(plan)
            cand["ops"][j]["access"] = "stringio"
            if test(cand):
                plan = cand
    if plan["cfg"].get("bufsize") != 8192:
        cand = copy.deepcopy(plan)
        cand["cfg"]["bufsize"] = 8192
        if test(cand):
            plan = cand
    # 4. shrink file contents by lines
    for name in list(plan["files"]):
        def with_spec(s, name=name):
            c = copy.deepcopy(plan)
            c["files"][name] = s
            return test(c)

        plan["files"][name] = _shrink_text(plan["files"][name], with_spec)
    for j, op in enumerate(plan["ops"]):
        if op["op"] == "rewrite":
            def with_spec(s, j=j):
                c = copy.deepcopy(plan)
                c["ops"][j]["spec"] = s
                return test(c)

            plan["ops"][j]["spec"] = _shrink_text(op["spec"], with_spec)
    return plan


# --------------------------------------------------------------------------------------
# reporting
# --------------------------------------------------------------------------------------
def describe(plan, res):
    return {
        "cfg": plan["cfg"],
        "files": {n: {"fmt": s["fmt"], "delimiter": s["style"]["delim"], "comment": s["style"]["comment"],
                      "faults": s["faults"], "device": s["dev"], "text": s["text"][:400]}
                  for n, s in list(plan["files"].items())[:4]},
        "ops": [(o["op"], o["file"], o.get("access")) for o in plan["ops"]][:30],
        "log_digest": res["log_digest"],
    }


def coverage(agg, tier, n_runs, wall, extra):
    st = agg["stats"]
    c = st.count
    loads = c.get("loads", 0) + c.get("walk.loads", 0)
    cov = {
        "evaluations": loads,
        "distinct_nontrivial": len(st.distinct.get("tuples", ())) + len(st.distinct.get("walk_tuples", ())),
        "rule": RULE,
        "samples": agg["samples"][:3],
        "loads_per_hour": int(loads / max(wall, 1e-6) * 3600),
        "distinct_file_contents": len(st.distinct.get("contents", ())),
        "verdicts": {k.split(".", 1)[1]: v for k, v in c.items() if k.startswith("verdict.")},
        "per_loader_verdicts": {k.split(".", 1)[1]: v for k, v in sorted(c.items()) if k.startswith("loader.")},
        "access_paths": {k.split(".", 1)[1]: v for k, v in c.items() if k.startswith("access.")},
        "faults_fired": {k.split(".", 1)[1]: v for k, v in sorted(c.items()) if k.startswith("fault.")},
        "probes": {k.split(".", 1)[1]: v for k, v in sorted(c.items()) if k.startswith("probe.")},
        "exhaustive_walks": {k.split(".", 1)[1]: v for k, v in sorted(c.items()) if k.startswith("walk.")},
        "exhaustive_walks_note": "per walked file every truncation offset / every deletion / every position x flip "
                                 "alphabet is enumerated completely; files themselves are sampled",
        "distinct_interleavings": len(st.distinct.get("tuples", ())),
        "distinct_interleavings_measure": "distinct (loader, access path, fault kinds, verdict, outcome class) tuples; "
                                          "C20 has no thread interleaving, ordering is the load/rewrite sequence",
        "components": {
            "real": ["mir_eval.io loaders + util/key/tempo validators (tree under test)", "Python io.BufferedReader",
                     "Python io.TextIOWrapper", "io.StringIO", "real temp files (one swarm configuration)"],
            "stub": ["SimFS/SimRaw (OS file layer)", "annotation writers (model side)", "refparse oracle"],
        },
    }
    if extra:
        cov.update(extra)
    return cov
