"""Model side of the storage simulation: annotation writers for the ten documented text
formats, storage faults on the written text, and `refparse` -- a small independent
executable specification of what a loader must make of given file content (three-valued:
VALUES / ROW_ERROR / DOC_ERROR / UNSPEC), plus the loader-level convention model.

Deliberately shares no code with mir_eval.io: own line splitting, own tokenisation,
own decimal -> double conversion (via exact rational arithmetic).
"""

from fractions import Fraction

FORMATS = ["events", "labeled_events", "intervals", "labeled_intervals", "valued_intervals",
           "time_series", "ragged", "patterns", "key", "tempo"]
LOADER = {
    "events": "load_events", "labeled_events": "load_labeled_events", "intervals": "load_intervals",
    "labeled_intervals": "load_labeled_intervals", "valued_intervals": "load_valued_intervals",
    "time_series": "load_time_series", "ragged": "load_ragged_time_series", "patterns": "load_patterns",
    "key": "load_key", "tempo": "load_tempo",
}
COLS = {"events": "f", "labeled_events": "fs", "intervals": "ff", "labeled_intervals": "ffs",
        "valued_intervals": "fff", "time_series": "ff", "key": "ss", "tempo": "fff"}
DELIMS = {"ws": None, "ws_explicit": r"\s+", "tab": "\t", "comma": ",", "semi": ";"}
COMMENTS = ["#", "#", "#", "%", "//", None, "[#%]", "#|;;"]  # the argument is documented as a regular expression
COMMENT_STARTS = {"[#%]": ("#", "%"), "#|;;": ("#", ";;")}

# --------------------------------------------------------------------------------------
# number grammar and exact conversion
# --------------------------------------------------------------------------------------
_DIG = "0123456789"


def _isspace(ch):
    return ch.isspace()


def _strip(s):
    i, j = 0, len(s)
    while i < j and _isspace(s[i]):
        i += 1
    while j > i and _isspace(s[j - 1]):
        j -= 1
    return s[i:j]


def classify_number(tok):
    """-> ('num', float) | ('bad',) | ('unspec',).  'num' for plain decimal literals
    [+-]digits[.digits][e[+-]digits] (surrounding whitespace allowed, as every documented
    loader converts with float()).  'unspec' for spellings on which "unparsable" is not
    defined by the documentation (nan/inf words, underscores, non-ASCII digits)."""
    t = _strip(tok)
    if t == "":
        return ("bad",)
    if any(ord(c) > 127 for c in t) or "_" in t:
        return ("unspec",)
    low = t.lower().lstrip("+-")
    if low in ("nan", "inf", "infinity"):
        return ("unspec",)
    i, n = 0, len(t)
    neg = False
    if t[i] in "+-":
        neg = t[i] == "-"
        i += 1
    ip = ""
    while i < n and t[i] in _DIG:
        ip += t[i]
        i += 1
    fp = ""
    if i < n and t[i] == ".":
        i += 1
        while i < n and t[i] in _DIG:
            fp += t[i]
            i += 1
    if ip == "" and fp == "":
        return ("bad",)
    ex = 0
    if i < n and t[i] in "eE":
        i += 1
        esign = 1
        if i < n and t[i] in "+-":
            esign = -1 if t[i] == "-" else 1
            i += 1
        ed = ""
        while i < n and t[i] in _DIG:
            ed += t[i]
            i += 1
        if ed == "":
            return ("bad",)
        ex = esign * int(ed)
    if i != n:
        return ("bad",)
    mant = int((ip + fp) or "0")
    ex10 = ex - len(fp)
    if mant == 0:
        val = 0.0
    elif ex10 + len(str(mant)) > 400:
        val = float("inf")
    elif ex10 + len(str(mant)) < -400:
        val = 0.0
    else:
        fr = Fraction(mant * 10 ** ex10, 1) if ex10 >= 0 else Fraction(mant, 10 ** (-ex10))
        try:
            val = fr.numerator / fr.denominator  # int / int is correctly rounded
        except OverflowError:
            val = float("inf")
    if neg:
        val = -val
    return ("num", val)


# --------------------------------------------------------------------------------------
# physical lines
# --------------------------------------------------------------------------------------
def physical_lines(text):
    """Lines as both a universal-newline text file and a StringIO present them (after the
    loader's own strip()), or None when the two disagree (a lone CR inside the file)."""
    t = text.replace("\r\n", "\n")
    if t.endswith("\r"):
        t = t[:-1] + "\n"
    if "\r" in t:
        return None
    if t == "":
        return []
    lines = t.split("\n")
    if lines[-1] == "":
        lines.pop()
    return lines


def split_tokens(line, delim_kind, maxsplit):
    """Split a stripped line.  maxsplit < 0: unlimited."""
    if delim_kind in ("ws", "ws_explicit"):
        toks, cur, i, n = [], "", 0, len(line)
        while i < n:
            if _isspace(line[i]) and (maxsplit < 0 or len(toks) < maxsplit):
                j = i
                while j < n and _isspace(line[j]):
                    j += 1
                toks.append(cur)
                cur = ""
                i = j
            else:
                cur += line[i]
                i += 1
        toks.append(cur)
        return toks
    d = DELIMS[delim_kind]
    toks, cur = [], ""
    for ch in line:
        if ch == d and (maxsplit < 0 or len(toks) < maxsplit):
            toks.append(cur)
            cur = ""
        else:
            cur += ch
    toks.append(cur)
    return toks


# --------------------------------------------------------------------------------------
# refparse
# --------------------------------------------------------------------------------------
def refparse(fmt, text, delim_kind="ws", comment="#"):
    """-> dict(kind='VALUES', rows=..., conv=bool|None)
         | dict(kind='ROW_ERROR', rows={1-based physical line numbers of bad rows})
         | dict(kind='DOC_ERROR', why=...)     (multi-line key/tempo, tempo weight)
         | dict(kind='UNSPEC', why=...)"""
    lines = physical_lines(text)
    if lines is None:
        return {"kind": "UNSPEC", "why": "lone CR"}
    if text[:1] == "\ufeff":
        return {"kind": "UNSPEC", "why": "BOM"}
    if fmt == "patterns":
        return _refparse_patterns(lines)
    cols = None if fmt == "ragged" else COLS[fmt]
    rows, bad, unspec = [], set(), None
    for ln, line in enumerate(lines, 1):
        if comment is not None and line.startswith(COMMENT_STARTS.get(comment, comment)):
            continue
        s = _strip(line)
        if cols is None:
            toks = split_tokens(s, delim_kind, -1)
            vals, ok = [], True
            for tk in toks:
                c = classify_number(tk)
                if c[0] == "num":
                    vals.append(c[1])
                elif c[0] == "unspec":
                    unspec = "number spelling %r" % tk
                    ok = False
                else:
                    ok = False
                    bad.add(ln)
            # a numeric token with surrounding whitespace cannot arise after a whitespace split;
            # for literal delimiters numpy's and float()'s treatment of inner blanks agree.
            if ok:
                rows.append((vals[0], vals[1:]))
            continue
        toks = split_tokens(s, delim_kind, len(cols) - 1)
        if len(toks) != len(cols):
            bad.add(ln)
            continue
        vals, ok = [], True
        for tk, ct in zip(toks, cols):
            if ct == "s":
                vals.append(tk)
                continue
            c = classify_number(tk)
            if c[0] == "num":
                vals.append(c[1])
            elif c[0] == "unspec":
                unspec = "number spelling %r" % tk
                ok = False
            else:
                bad.add(ln)
                ok = False
        if ok:
            rows.append(tuple(vals))
    if unspec is not None:
        return {"kind": "UNSPEC", "why": unspec}
    if bad:
        out = {"kind": "ROW_ERROR", "rows": bad}
        if fmt in ("key", "tempo") and len(rows) + len(bad) > 1:
            out["any_valueerror"] = True  # a multi-line key/tempo file is an error in itself
        return out
    if fmt in ("key", "tempo"):
        if len(rows) == 0:
            return {"kind": "UNSPEC", "why": "key/tempo file without a data row"}
        if len(rows) > 1:
            return {"kind": "DOC_ERROR", "why": "multi-line %s file" % fmt}
        if fmt == "tempo":
            w = rows[0][2]
            if not (0 <= w <= 1):
                return {"kind": "DOC_ERROR", "why": "tempo weight outside [0, 1]"}
    return {"kind": "VALUES", "rows": rows, "conv": convention_violation(fmt, rows)}


def _refparse_patterns(lines):
    patterns, bad = [], set()
    pat, occ = None, None
    unspec = None
    unspec_num = False
    for ln, line in enumerate(lines, 1):
        if "pattern" in line:
            if occ is not None and not occ:
                unspec = "occurrence without points"
            if pat is not None and not pat:
                unspec = "pattern without occurrences"
            pat, occ = [], None
            patterns.append(pat)
            continue
        if "occurrence" in line:
            if pat is None:
                unspec = "occurrence before the first pattern header"
                pat = []
                patterns.append(pat)
            if occ is not None and not occ:
                unspec = "occurrence without points"
            occ = []
            pat.append(occ)
            continue
        toks = split_tokens(line, "comma", -1)
        if len(toks) != 2:
            bad.add(ln)
            continue
        c0, c1 = classify_number(toks[0]), classify_number(toks[1])
        if c0[0] == "unspec" or c1[0] == "unspec":
            unspec_num = True
            continue
        if c0[0] != "num" or c1[0] != "num":
            bad.add(ln)
            continue
        if occ is None:
            unspec = "point row outside an occurrence"
            continue
        occ.append((c0[1], c1[1]))
    if occ is not None and not occ:
        unspec = "occurrence without points"
    if pat is not None and not pat:
        unspec = "pattern without occurrences"
    if unspec_num:
        # the loader may or may not reject such a spelling, at that row, before reaching any bad row
        return {"kind": "UNSPEC", "why": "number spelling"}
    if unspec is not None and not bad:
        return {"kind": "UNSPEC", "why": unspec}
    if bad:
        return {"kind": "ROW_ERROR", "rows": bad}
    return {"kind": "VALUES", "rows": patterns, "conv": None}


# --------------------------------------------------------------------------------------
# loader-level convention model (content parses; does it break a documented convention?)
# --------------------------------------------------------------------------------------
KEYS = ["c", "c#", "db", "d", "d#", "eb", "e", "f", "f#", "gb", "g", "g#", "ab", "a", "a#", "bb", "b"]
MODES = ["major", "minor", "other"]
MAX_TIME = 30000.0


def convention_violation(fmt, rows):
    """True: the content violates a convention the loader's validator is documented to check
    (so a warning is required).  False: it does not.  None: not judged."""
    if fmt in ("events", "labeled_events"):
        ts = [r[0] for r in rows]
        if any(t > MAX_TIME for t in ts):
            return True
        if any(b < a for a, b in zip(ts, ts[1:])):
            return True
        return False
    if fmt in ("intervals", "labeled_intervals", "valued_intervals"):
        for r in rows:
            if r[0] < 0 or r[1] < 0 or r[1] <= r[0]:
                return True
        return False
    if fmt == "key":
        k, m = rows[0]
        # the second column is the rest of the line; more than one word in it is not '(key) (mode)'
        if k.lower() in KEYS and m in MODES:
            return False
        if any(ch.isspace() for ch in k + m):
            # blanks inside a column (possible with a non-blank delimiter, e.g. 'a ;minor'): whether
            # '(key) (mode)' tolerates them is not documented -- judged only if it is wrong anyway
            parts = (k + " " + m).split()
            if len(parts) == 2 and parts[0].lower() in KEYS + ["x"] and parts[1].lower() in MODES:
                return None
        # ('C Major': the conventions say the case of the KEY is ignored and that no mode string other than
        #  'major' / 'minor' (/ 'other') is accepted -- a capitalised mode is another string: violation)
        return True
    if fmt == "tempo":
        t1, t2, _ = rows[0]
        if t1 < 0 or t2 < 0 or t1 in (float("inf"),) or t2 in (float("inf"),):
            return True
        if t1 == 0 and t2 == 0:
            return None  # allowed for an estimate, not for a reference; the loader cannot know which
        return False
    return None


def build_value(fmt, rows):
    """The Python/numpy object the documented loader API returns for parsed rows."""
    import numpy as np

    if fmt == "events":
        return np.array([r[0] for r in rows], dtype=float)
    if fmt == "labeled_events":
        return (np.array([r[0] for r in rows], dtype=float), [r[1] for r in rows])
    if fmt == "intervals":
        return np.array([[r[0], r[1]] for r in rows], dtype=float).reshape(len(rows), 2)
    if fmt == "labeled_intervals":
        return (np.array([[r[0], r[1]] for r in rows], dtype=float).reshape(len(rows), 2), [r[2] for r in rows])
    if fmt == "valued_intervals":
        return (np.array([[r[0], r[1]] for r in rows], dtype=float).reshape(len(rows), 2),
                np.array([r[2] for r in rows], dtype=float))
    if fmt == "time_series":
        return (np.array([r[0] for r in rows], dtype=float), np.array([r[1] for r in rows], dtype=float))
    if fmt == "ragged":
        return (np.array([r[0] for r in rows], dtype=float), [np.array(r[1], dtype=float) for r in rows])
    if fmt == "patterns":
        return [[[(float(a), float(b)) for a, b in occ] for occ in pat] for pat in rows]
    if fmt == "key":
        return "%s %s" % (rows[0][0], rows[0][1])
    if fmt == "tempo":
        return (np.array([rows[0][0], rows[0][1]], dtype=float), float(rows[0][2]))
    raise KeyError(fmt)


# --------------------------------------------------------------------------------------
# writers
# --------------------------------------------------------------------------------------
def fmt_float(x, style):
    if style == "int" and x == int(x) and abs(x) < 1e15 and not (x == 0 and str(x)[0] == "-"):
        return "%d" % int(x)
    if style == "g17":
        return "%.17g" % x
    if style == "e16":
        return "%.16e" % x
    if style == "E16":
        return "%.16E" % x
    if style == "plus":
        return ("" if repr(x).startswith("-") else "+") + repr(x)
    if style == "lead0" and str(x)[0] != "-":
        return "00" + repr(x)
    return repr(x)


FLOAT_STYLES = ["repr", "repr", "repr", "g17", "e16", "E16", "plus", "int", "lead0"]


def gen_float(rng, kind):
    """kind: 'time' (non-negative seconds), 'any' (any finite), 'freq', 'pos'."""
    r = rng.random()
    if kind == "time":
        if r < 0.5:
            return round(rng.uniform(0, 60), rng.choice([0, 1, 2, 3, 6]))
        if r < 0.8:
            return rng.uniform(0, 300)
        if r < 0.9:
            return rng.randrange(0, 3000) * 0.01
        return rng.uniform(0, 29999)
    if kind == "freq":
        if r < 0.2:
            return 0.0
        return rng.uniform(20.5, 4999.0) if r < 0.8 else float(rng.randrange(21, 4999))
    if kind == "pos":
        return rng.uniform(1e-3, 1e3)
    # any finite double, wide dynamic range
    if r < 0.3:
        return rng.uniform(-1000, 1000)
    if r < 0.4:
        return float(rng.randrange(-100, 100))
    if r < 0.5:
        return rng.choice([0.0, -0.0, 1e-308, 5e-324, 1.7976931348623157e308, -1e300, 0.1, 1 / 3.0, 2.0 ** 53 + 2])
    import struct

    while True:
        x = struct.unpack("<d", struct.pack("<Q", rng.getrandbits(64)))[0]
        if x == x and x not in (float("inf"), float("-inf")):
            return x


LABEL_ATOMS = ["A", "b", "chorus", "verse", "N", "C:maj", "G#:min7/b3", "silence", "#1", "x,y", "a;b", "%",
               "été", "日本語", "Ω", "\U0001f3b5", "é", "1.5", "-3", "__T_MIN",
               "//", "(1)", "\"q\"", "it's", "\\t", "\x00", "a\x0cb", " z", "a b", "nan", "pattern", "0"]
LABEL_GAPS = [" ", " ", "  ", "\t", " \t ", " ", "　"]


def gen_label(rng):
    n = rng.choice([1, 1, 1, 2, 2, 3, 4])
    out = rng.choice(LABEL_ATOMS)
    for _ in range(n - 1):
        out += rng.choice(LABEL_GAPS) + rng.choice(LABEL_ATOMS)
    out = _strip(out)
    return out or "x"


def gen_rows(rng, fmt, n=None, flavor="valid"):
    """Model annotation rows.  flavor: 'valid' keeps the loader-level conventions,
    'wild' may break them (still well-formed text: the loader must warn, not raise)."""
    if n is None:
        n = rng.choice([0, 1, 2, 3, 5, 8, 13, 21, 40, 60]) if rng.random() < 0.5 else rng.randrange(0, 25)
    wild = flavor == "wild"
    if fmt in ("events", "labeled_events"):
        ts = sorted(gen_float(rng, "time") for _ in range(n))
        if rng.random() < 0.2 and n > 1:
            ts[rng.randrange(1, n)] = ts[0]  # duplicates
            ts.sort()
        if wild and n > 0:
            w = rng.random()
            if w < 0.4 and n > 1:
                rng.shuffle(ts)
            elif w < 0.7:
                ts[rng.randrange(n)] = rng.uniform(30000.5, 1e6)
            else:
                ts = [gen_float(rng, "any") for _ in range(n)]
        if fmt == "events":
            return [(t,) for t in ts]
        return [(t, gen_label(rng)) for t in ts]
    if fmt in ("intervals", "labeled_intervals", "valued_intervals"):
        rows, t = [], (0.0 if rng.random() < 0.6 else gen_float(rng, "time"))
        for _ in range(n):
            d = rng.choice([0.5, 1.0, 0.25]) if rng.random() < 0.3 else rng.uniform(1e-3, 20)
            a, b = t, t + d
            if rng.random() < 0.3:
                a, b = round(a, 3), round(b, 3)
                if b <= a:
                    b = a + 0.001
            t = b if rng.random() < 0.8 else b + rng.uniform(0, 2)
            if wild:
                w = rng.random()
                if w < 0.15:
                    a, b = b, a
                elif w < 0.25:
                    b = a
                elif w < 0.35:
                    a = -a - 0.5
                elif w < 0.45:
                    a, b = gen_float(rng, "any"), gen_float(rng, "any")
            if fmt == "intervals":
                rows.append((a, b))
            elif fmt == "labeled_intervals":
                rows.append((a, b, gen_label(rng)))
            else:
                rows.append((a, b, gen_float(rng, "any") if wild else rng.uniform(20, 5000)))
        return rows
    if fmt == "time_series":
        hop = rng.choice([0.01, 0.0058, 0.1, 1.0])
        t0 = rng.choice([0.0, hop, 0.5])
        return [((t0 + i * hop) if not wild else gen_float(rng, "any"),
                 gen_float(rng, "freq") if not wild else gen_float(rng, "any")) for i in range(n)]
    if fmt == "ragged":
        hop = rng.choice([0.01, 0.0116, 0.5])
        return [((i * hop) if not wild else gen_float(rng, "any"),
                 [gen_float(rng, "pos") * 5 + 20 if not wild else gen_float(rng, "any")
                  for _ in range(rng.choice([0, 0, 1, 1, 2, 3, 5]))]) for i in range(n)]
    if fmt == "ragged_int":
        # the docstring's own example: ragged rows of integer (MIDI) values loaded with dtype=int; times stay float
        hop = rng.choice([0.01, 0.0116, 0.5])
        return [(i * hop, [float(rng.randrange(21, 109)) for _ in range(rng.choice([0, 1, 1, 2, 3]))]) for i in range(n)]
    if fmt == "patterns":
        pats = []
        for _ in range(rng.randrange(0, 5)):
            occs = []
            for _ in range(rng.randrange(1, 4)):
                occs.append([(gen_float(rng, "time") if not wild else gen_float(rng, "any"),
                              float(rng.randrange(30, 100)) if rng.random() < 0.8 else gen_float(rng, "any"))
                             for _ in range(rng.randrange(1, 6))])
            pats.append(occs)
        return pats
    if fmt == "key":
        k = rng.choice(KEYS)
        k = rng.choice([k, k.upper(), k.capitalize()])
        m = rng.choice(MODES)
        if wild:
            w = rng.random()
            if w < 0.3:
                k = rng.choice(["h", "cb", "e#", "x", "X", "do", "1"])
            elif w < 0.6:
                m = rng.choice(["Major", "dorian", "maj", "minor extra", "MINOR"])
        return [(k, m)]
    if fmt == "tempo":
        a = rng.uniform(30, 120)
        b = a * rng.choice([2, 3, 1.5]) if rng.random() < 0.8 else rng.uniform(30, 300)
        w = rng.choice([0.0, 1.0, 0.5, round(rng.random(), 2), rng.random()])
        if wild:
            x = rng.random()
            if x < 0.3:
                a = -a
            elif x < 0.5:
                a, b = 0.0, 0.0
            elif x < 0.7:
                b = -0.0
        return [(a, b, w)]
    raise KeyError(fmt)


def gen_style(rng, fmt):
    if fmt == "patterns":
        return {"delim": "comma", "comment": None, "eol": rng.choice(["\n", "\n", "\r\n"]),
                "final_newline": rng.random() < 0.8, "pass_delim": False, "pass_comment": False}
    delim = rng.choice(["ws", "ws", "ws", "ws_explicit", "tab", "comma", "semi"])
    if fmt == "key" and delim in ("ws", "ws_explicit"):
        pass
    comment = rng.choice(COMMENTS)
    return {"delim": delim, "comment": comment, "eol": rng.choice(["\n", "\n", "\r\n"]),
            "final_newline": rng.random() < 0.8,
            "pass_delim": delim not in ("ws",), "pass_comment": comment != "#" or rng.random() < 0.3}


def _sep(rng, delim):
    if delim in ("ws", "ws_explicit"):
        return rng.choice([" ", " ", "\t", "  ", " \t", "\t\t", "   "])
    return DELIMS[delim]


def render(rng, fmt, rows, style):
    """Model rows -> file text.  Also returns the list of data-line texts (for faults)."""
    lines = []
    eol = style["eol"]
    if fmt == "patterns":
        for pi, pat in enumerate(rows, 1):
            lines.append("pattern%d" % pi)
            for oi, occ in enumerate(pat, 1):
                lines.append("occurrence%d" % oi)
                for a, b in occ:
                    lines.append("%s,%s%s" % (fmt_float(a, rng.choice(FLOAT_STYLES)), rng.choice(["", " ", "  "]),
                                              fmt_float(b, rng.choice(FLOAT_STYLES))))
    else:
        cm = style["comment"]
        pad_ok = style["delim"] in ("ws", "ws_explicit")
        for r in rows:
            if cm is not None and rng.random() < 0.12:
                lines.append(rng.choice(COMMENT_STARTS.get(cm, (cm,))) + rng.choice(["", " comment", " 1.0 2.0 x", "\ttab", " é"]))
            if fmt == "ragged":
                toks = [fmt_float(r[0], rng.choice(FLOAT_STYLES))] + [fmt_float(v, rng.choice(FLOAT_STYLES)) for v in r[1]]
            else:
                toks = [fmt_float(v, rng.choice(FLOAT_STYLES)) if isinstance(v, float) else v for v in r]
            line = toks[0]
            for tk in toks[1:]:
                line += _sep(rng, style["delim"]) + tk
            if pad_ok and rng.random() < 0.1:
                line = rng.choice([" ", "\t", "  "]) + line
            if rng.random() < 0.1:
                line = line + rng.choice([" ", "\t", "  "])
            lines.append(line)
        if cm is not None and rng.random() < 0.15:
            lines.append(rng.choice(COMMENT_STARTS.get(cm, (cm,))) + " trailing comment")
    text = eol.join(lines)
    if lines and style["final_newline"]:
        text += eol
    return text


def loader_kwargs(style):
    kw = {}
    if style.get("pass_delim") or style["delim"] != "ws":
        d = DELIMS[style["delim"]]
        if d is not None:
            kw["delimiter"] = d
    if style.get("pass_comment") or style["comment"] != "#":
        kw["comment"] = style["comment"]
    return kw


# --------------------------------------------------------------------------------------
# storage faults on text (offsets are character offsets: never splits a UTF-8 sequence)
# --------------------------------------------------------------------------------------
FAULT_KINDS = ["torn", "lost_line", "dup_line", "swap_lines", "flip", "del_char", "ins_char", "zero_tail", "empty",
               "neg_number", "zero_number", "swap_fields"]
_NUMTOK = None


def _split_keep(text):
    """-> list of [content, terminator]"""
    out, cur, i, n = [], "", 0, len(text)
    while i < n:
        if text[i] == "\r" and i + 1 < n and text[i + 1] == "\n":
            out.append([cur, "\r\n"])
            cur = ""
            i += 2
        elif text[i] == "\n":
            out.append([cur, "\n"])
            cur = ""
            i += 1
        else:
            cur += text[i]
            i += 1
    if cur != "":
        out.append([cur, ""])
    return out


def _join(parts):
    return "".join(c + t for c, t in parts)


def flip_alphabet(c):
    if c in _DIG:
        return [d for d in "0159" if d != c] + [".", "-", "e", "x", " ", ","]
    if c == ".":
        return ["0", ",", " ", "e", "-"]
    if c in "+-":
        return ["1", "+" if c == "-" else "-", ".", " "]
    if c in "eE":
        return ["0", "x", "-", "."]
    if c in " \t":
        return ["x", "0", ",", ".", "\t" if c == " " else " ", "_"]
    if c in ",;":
        return [".", " ", ";" if c == "," else ",", "0", "x"]
    if c == "#":
        return ["x", " ", "%"]
    if c.isalpha():
        return [c.swapcase() if c.swapcase() != c else "q", "0", "#", " ", "z" if c != "z" else "y"]
    return ["x", "0", " "]


def apply_fault(rng, text, kind):
    """-> (new_text, descriptor) or None when the fault would be a no-op."""
    n = len(text)
    if kind == "empty":
        return ("", {"kind": kind}) if n else None
    if n == 0:
        return None
    if kind == "torn":
        off = rng.randrange(0, n)
        if rng.random() < 0.4:  # bias: right around a line end
            idx = [i for i, ch in enumerate(text) if ch == "\n"]
            if idx:
                off = max(0, min(n - 1, rng.choice(idx) + rng.choice([-1, 0, 1])))
        return text[:off], {"kind": kind, "at": off}
    if kind == "zero_tail":
        off = rng.randrange(0, n)
        return text[:off] + "\x00" * (n - off), {"kind": kind, "at": off}
    if kind in ("flip", "del_char", "ins_char"):
        off = rng.randrange(0, n)
        c = text[off]
        if kind == "flip":
            if c in "\r\n":
                return None
            new = rng.choice(flip_alphabet(c))
            if new == c:
                return None
            return text[:off] + new + text[off + 1:], {"kind": kind, "at": off, "old": c, "new": new}
        if kind == "del_char":
            return text[:off] + text[off + 1:], {"kind": kind, "at": off, "old": c}
        new = rng.choice(flip_alphabet(c) if c not in "\r\n" else ["0", " ", "x"])
        return text[:off] + new + text[off:], {"kind": kind, "at": off, "new": new}
    if kind in ("neg_number", "zero_number", "swap_fields"):
        # field-level corruptions (a sign lost/gained, a value zeroed, two neighbouring fields exchanged):
        # the kind of single fault that pushes well-formed content outside a task's conventions
        import re

        toks = [m for m in re.finditer(r"[^\s,;]+", text)]
        nums = [m for m in toks if classify_number(m.group(0))[0] == "num"]
        if not nums:
            return None
        if kind == "neg_number":
            m = rng.choice(nums)
            t = m.group(0)
            new = t[1:] if t[0] == "-" else ("-" + t.lstrip("+"))
            return text[:m.start()] + new + text[m.end():], {"kind": kind, "at": m.start(), "old": t, "new": new}
        if kind == "zero_number":
            m = rng.choice(nums)
            if m.group(0) in ("0", "0.0"):
                return None
            new = rng.choice(["0", "0.0"])
            return text[:m.start()] + new + text[m.end():], {"kind": kind, "at": m.start(), "old": m.group(0), "new": new}
        pairs = [(a, b) for a, b in zip(toks, toks[1:]) if "\n" not in text[a.end():b.start()] and "\r" not in text[a.end():b.start()]
                 and classify_number(a.group(0))[0] == "num" and classify_number(b.group(0))[0] == "num" and a.group(0) != b.group(0)]
        if not pairs:
            return None
        a, b = rng.choice(pairs)
        return (text[:a.start()] + b.group(0) + text[a.end():b.start()] + a.group(0) + text[b.end():],
                {"kind": kind, "at": a.start(), "old": a.group(0), "new": b.group(0)})
    parts = _split_keep(text)
    if kind == "lost_line":
        i = rng.randrange(len(parts))
        del parts[i]
        return _join(parts), {"kind": kind, "line": i + 1}
    if kind == "dup_line":
        i = rng.randrange(len(parts))
        c, t = parts[i]
        if t == "":
            parts[i][1] = "\n"
            parts.insert(i + 1, [c, ""])
        else:
            parts.insert(i + 1, [c, t])
        return _join(parts), {"kind": kind, "line": i + 1}
    if kind == "swap_lines":
        if len(parts) < 2:
            return None
        i = rng.randrange(len(parts) - 1)
        if parts[i][0] == parts[i + 1][0]:
            return None
        parts[i][0], parts[i + 1][0] = parts[i + 1][0], parts[i][0]
        return _join(parts), {"kind": kind, "line": i + 1}
    raise KeyError(kind)


def drop_lines(text, keep):
    """Minimisation helper: keep only the physical lines whose index is in `keep`."""
    parts = _split_keep(text)
    return _join([p for i, p in enumerate(parts) if i in keep])


def n_lines(text):
    return len(_split_keep(text))
