"""C14 (pipeline part only) -- valid stored annotations are always scored, stored annotations
that a single storage fault has pushed outside a convention the validator is documented to
check are rejected with ValueError / InvalidChordException.

The campaign of C20 carried one step further: writers store reference and estimate files,
storage faults corrupt them, the REAL loaders read them over the simulated storage, and the
loaded data goes to the task's evaluate() and metric functions.  The oracle is a three-valued
convention model (VALID / INVALID_CHECKED / UNSPEC) that only predicts returns-vs-raises and
the exception type, never a score.  DESIGN.md section 5.1 and appendix A.
"""

import copy
import io
import os
import shutil
import tempfile

from . import core, model_io as M, seams
from .pool import CHORD_LABELS

PROP = "C14"
RUNS = {"quick": 3000, "thorough": 80000}
RUN_TIMEOUT = 90.0
VALID, INVALID, UNSPEC = "VALID", "INVALID_CHECKED", "UNSPEC"
ASSUMPTIONS = [
    "PARTIAL: only annotations that can exist as a stored text file in a documented format are explored; malformations that only "
    "exist in memory (wrong ndim, unequal array lengths, bad tolerances/frame sizes/weights passed as keywords, mis-shaped or silent "
    "sources) and in-memory shapes no loader can produce are NOT decided",
    "the convention model is an independent reading of the modules' 'Conventions' docstrings and documented validators; "
    "anything they do not settle is UNSPEC and never judged; the oracle predicts only returns-vs-raises and the exception type",
    "INVALID_CHECKED content is judged on the task's metric functions called directly on the loaded data; for evaluate() the "
    "documented pre-processing may legitimately remove the offence, so only the exception type is judged there",
]
RULE = ("each run: 8-14 load->evaluate steps over 13 task pipelines; writers store valid reference/estimate annotations (incl. empty, "
        "single, duplicate times, estimates starting earlier/later or running longer/shorter, boundaries coinciding with the reference "
        "start/end), 0-1 storage fault per step, loaders read via the mir_eval.io.open seam (short reads/EINTR) or StringIO; "
        "non-trivial+distinct = distinct (task, fault kind, model verdict, function, observed outcome) tuples")

OK_EXC = (ValueError,)
HORIZON = 600.0  # seconds; resource bound of the harness, not a convention of mir_eval


# --------------------------------------------------------------------------------------
# convention model on loaded data (independent of mir_eval code)
# --------------------------------------------------------------------------------------
def _finite(*arrs):
    import numpy as np

    return all(bool(np.all(np.isfinite(a))) for a in arrs)


def events_class(ev):
    """sorted, <= 30000 s (1-d by construction)."""
    import numpy as np

    if not _finite(ev):
        return UNSPEC, "non-finite time"
    if ev.size and float(ev.max()) > 30000.0:
        return INVALID, "event time > 30000 s"
    if ev.size > 1 and bool(np.any(np.diff(ev) < 0)):
        return INVALID, "events not sorted"
    if ev.size and float(ev.min()) < 0:
        return UNSPEC, "negative event time"
    if ev.size and float(ev.max()) > HORIZON:
        return UNSPEC, "time beyond the harness horizon (beat.p_score correlates 100 Hz impulse trains: cost ~ duration^2)"
    return VALID, ""


def intervals_class(iv):
    """n-by-2, non-negative, strictly positive durations."""
    import numpy as np

    if not _finite(iv):
        return UNSPEC, "non-finite interval"
    if iv.size and float(np.abs(iv).max()) > HORIZON:
        return UNSPEC, "time beyond the harness horizon (frame-sampled metrics need memory ~ (duration/frame_size)^2)"
    if iv.size and bool(np.any(iv < 0)):
        return INVALID, "negative interval time"
    if iv.size and bool(np.any(iv[:, 1] <= iv[:, 0])):
        return INVALID, "non-positive interval duration"
    return VALID, ""


def contiguous(iv):
    import numpy as np

    return iv.shape[0] >= 1 and bool(np.all(iv[1:, 0] == iv[:-1, 1]))


def _root(label):
    """Pitch class of a (valid) chord label's root as a semitone, or the label itself for N / X."""
    if label in ("N", "X"):
        return label
    head = label.split(":")[0].split("/")[0]
    pc = {"C": 0, "D": 2, "E": 4, "F": 5, "G": 7, "A": 9, "B": 11}.get(head[:1])
    if pc is None:
        return label
    return (pc + head.count("#") - head.count("b")) % 12


def contiguous_or_overlapping(iv):
    """sorted by start, no gaps (overlaps allowed)"""
    import numpy as np

    return iv.shape[0] >= 1 and bool(np.all(iv[1:, 0] <= iv[:-1, 1])) and bool(np.all(np.diff(iv[:, 0]) >= 0))


def chord_label_class(lab):
    if lab in CHORD_LABELS:
        return VALID
    alphabet = set("ABCDEFGNX#b:/(),*0123456789abcdefghijklmnopqrstuvwxyz")
    if lab == "" or any(c not in alphabet for c in lab):
        return INVALID
    if lab[0] not in "ABCDEFGNX":
        return INVALID
    if lab[0] in "NX" and len(lab) > 1:
        return INVALID
    if lab.count("(") != lab.count(")"):
        return INVALID
    return UNSPEC


def combine(*vs):
    """Any UNSPEC part makes the whole UNSPEC (conservative); else any INVALID makes it INVALID."""
    why = "; ".join(w for _, w in vs if w)
    if any(v == UNSPEC for v, _ in vs):
        return UNSPEC, why
    if any(v == INVALID for v, _ in vs):
        return INVALID, why
    return VALID, why


# --------------------------------------------------------------------------------------
# writers: valid stored annotations per task
# --------------------------------------------------------------------------------------
def _style(rng, fmt):
    st = M.gen_style(rng, fmt)
    if rng.random() < 0.6 and fmt != "patterns":
        st.update({"delim": "ws", "comment": "#", "pass_delim": False, "pass_comment": False})
    return st


def _file(rng, fmt, rows):
    st = _style(rng, fmt)
    return {"fmt": fmt, "style": st, "text": M.render(rng, fmt, rows, st), "faults": [], "dev": {}}


def _times(rng, n, hi=60.0):
    ts = sorted(round(rng.uniform(0, hi), rng.choice([2, 3, 6])) for _ in range(n))
    if n > 2 and rng.random() < 0.25:
        ts[1] = ts[0]
    return ts


def _n(rng, lo=0, hi=25):
    r = rng.random()
    if r < 0.08:
        return lo
    if r < 0.16:
        return lo + 1
    return rng.randrange(lo, hi + 1)


def _partition(rng, t0, t1, n, must=None):
    cuts = set(round(rng.uniform(t0, t1), rng.choice([1, 2, 3])) for _ in range(max(0, n - 1)))
    if must is not None:
        cuts.add(must)
    cuts = sorted(c for c in cuts if t0 < c < t1)
    b = [t0] + cuts + [t1]
    return list(zip(b[:-1], b[1:]))


def w_events(rng, task):
    files = {}
    for side in ("ref", "est"):
        n = _n(rng)
        files[side] = _file(rng, "events", [(t,) for t in _times(rng, n, 40.0 if task == "beat" else 60.0)])
    return files


def w_align(rng, task):
    n = rng.choice([1, 1, 2, 3, 5, 8, 14])
    ref = _times(rng, n)
    if n > 1 and ref[-1] == ref[0] and rng.random() < 0.7:
        ref[-1] = ref[0] + 1.0
    est = sorted(max(0.0, t + rng.gauss(0, 0.3)) for t in ref)
    return {"ref": _file(rng, "events", [(t,) for t in ref]), "est": _file(rng, "events", [(round(t, 3),) for t in est])}


def _seg_pair(rng, labels, t0_choices=(0.0,)):
    T = rng.choice([10.0, 20.0, 30.5, 12.345, 7.25])
    t0 = rng.choice(t0_choices)
    ref = _partition(rng, t0, t0 + T, rng.randrange(1, 9))
    mode = rng.choice(["same", "same", "longer", "shorter", "longer_coincide", "earlier", "earlier_coincide", "later", "empty",
                       "near_end", "near_start"])
    e0, e1 = t0, t0 + T
    must = None
    if mode == "longer":
        e1 = t0 + T + rng.choice([0.5, 3.0, 0.001])
    elif mode == "shorter":
        e1 = t0 + T - rng.choice([0.5, 2.0])
    elif mode == "longer_coincide":
        e1 = t0 + T + rng.choice([0.5, 4.0])
        must = t0 + T  # an estimated boundary exactly at the reference end
    elif mode == "earlier" and t0 > 0:
        e0 = max(0.0, t0 - rng.choice([0.25, 1.0]))
    elif mode == "earlier_coincide" and t0 > 0:
        e0 = max(0.0, t0 - rng.choice([0.25, 1.0]))
        must = t0  # an estimated boundary exactly at the reference start
    elif mode == "later":
        e0 = t0 + rng.choice([0.25, 1.0])
    elif mode == "near_end":
        # the estimate ends a hair before / after the reference end (not equal): still a span to crop or pad
        e1 = t0 + T + rng.choice([-2e-5, 2e-5, -3e-7, 4e-9, 1e-6]) * rng.choice([1.0, T])
    elif mode == "near_start":
        e0 = t0 + rng.choice([4e-9, 2e-6, 3e-5])
    est = [] if mode == "empty" else _partition(rng, e0, e1, rng.randrange(1, 9), must)
    lr = [rng.choice(labels) for _ in ref]
    le = [rng.choice(labels) for _ in est]
    return [(a, b, l) for (a, b), l in zip(ref, lr)], [(a, b, l) for (a, b), l in zip(est, le)], mode


SEG_LABELS = ["A", "B", "C", "a", "verse", "chorus", "intro", "Z'", "b2"]


def w_segment(rng, task):
    ref, est, mode = _seg_pair(rng, SEG_LABELS)
    return {"ref": _file(rng, "labeled_intervals", ref), "est": _file(rng, "labeled_intervals", est), "_mode": mode}


def w_chord(rng, task):
    labs = rng.sample(CHORD_LABELS, rng.randrange(2, 8))
    ref, est, mode = _seg_pair(rng, labs, t0_choices=(0.0, 0.0, 1.5, 0.37))
    return {"ref": _file(rng, "labeled_intervals", ref), "est": _file(rng, "labeled_intervals", est), "_mode": mode}


def w_hier(rng, task):
    T = rng.choice([10.0, 20.0, 15.5])
    Te = T + rng.choice([0.0, 0.0, 0.5, -0.5, 2.0])
    files = {}
    for side, tt in (("ref", T), ("est", Te)):
        n = 1
        for lvl in range(rng.choice([1, 2, 2, 3])):
            n += rng.randrange(1, 4)
            iv = _partition(rng, 0.0, tt, n)
            files["%s%d" % (side, lvl)] = _file(rng, "labeled_intervals", [(a, b, rng.choice(SEG_LABELS[:5])) for a, b in iv])
    return files


def w_melody(rng, task):
    files = {}
    for side in ("ref", "est"):
        n = rng.choice([0, 1, 1, 2, 3, 5, 10, 25, 40])
        hop = rng.choice([0.01, 0.01, 0.0058, 0.02])
        t0 = rng.choice([0.0, 0.0, hop])
        base = rng.uniform(100, 800)
        rows = []
        for i in range(n):
            r = rng.random()
            f = 0.0 if r < 0.25 else (-base if (r < 0.35 and side == "est") else base * rng.choice([1.0, 2.0, 0.5, 1.01]))
            rows.append((round(t0 + i * hop, 6), f))
        files[side] = _file(rng, "time_series", rows)
    return files


def w_multipitch(rng, task):
    files = {}
    for side in ("ref", "est"):
        n = _n(rng, 0, 20)
        hop = rng.choice([0.01, 0.0116, 0.02])
        rows = [(round(i * hop, 6), sorted(rng.uniform(60, 2000) for _ in range(rng.choice([0, 1, 1, 2, 3])))) for i in range(n)]
        files[side] = _file(rng, "ragged", rows)
    return files


def _notes(rng, n):
    rows, t = [], 0.0
    for _ in range(n):
        t += rng.choice([0.0, 0.1, 0.5, rng.uniform(0, 1)])
        d = rng.uniform(0.05, 1.5)
        a, b = round(t, 3), round(t + d, 3)
        if b <= a:
            b = a + 0.01
        rows.append((a, b))
    return rows


def w_notes(rng, task):
    files = {}
    for side in ("ref", "est"):
        iv = _notes(rng, _n(rng, 0, 12))
        files[side] = _file(rng, "valued_intervals", [(a, b, 440.0 * 2 ** (rng.randrange(-24, 25) / 12.0)) for a, b in iv])
        if task == "transcription_velocity":
            files[side + "_vel"] = _file(rng, "valued_intervals", [(a, b, float(rng.randrange(0, 128))) for a, b in iv])
    return files


def w_pattern(rng, task):
    return {"ref": _file(rng, "patterns", M.gen_rows(rng, "patterns")), "est": _file(rng, "patterns", M.gen_rows(rng, "patterns"))}


def w_key(rng, task):
    return {"ref": _file(rng, "key", M.gen_rows(rng, "key")), "est": _file(rng, "key", M.gen_rows(rng, "key"))}


def w_tempo(rng, task):
    est = M.gen_rows(rng, "tempo")
    if rng.random() < 0.15:
        est = [(0.0, 0.0, est[0][2])]
    return {"ref": _file(rng, "tempo", M.gen_rows(rng, "tempo")), "est": _file(rng, "tempo", est)}


# --------------------------------------------------------------------------------------
# task adapters: loaded data -> verdicts and calls
# --------------------------------------------------------------------------------------
class Case(object):
    """What must happen for one loaded (ref, est) pair.
    must_return: list of (name, thunk)
    must_raise : list of (name, thunk, why)
    type_only  : list of (name, thunk)   -- may return or raise, but only an allowed exception type
    """

    def __init__(self):
        self.must_return, self.must_raise, self.type_only = [], [], []
        self.verdict, self.why = UNSPEC, ""
        self.allowed = OK_EXC


def a_events(mod_name, metrics, trim=False):
    def adapt(me, d):
        mod = getattr(me, mod_name)
        r, e = d["ref"], d["est"]
        c = Case()
        c.verdict, c.why = combine(events_class(r), events_class(e))
        calls = [(mod_name + "." + m, (lambda m=m: getattr(mod, m)(r, e))) for m in metrics]
        ev = (mod_name + ".evaluate", lambda: mod.evaluate(r, e))
        if c.verdict == VALID:
            c.must_return = calls + [ev]
            if trim:
                c.must_return += [(mod_name + "." + m + "[trimmed]", (lambda m=m: getattr(mod, m)(mod.trim_beats(r), mod.trim_beats(e))))
                                  for m in metrics]
        elif c.verdict == INVALID:
            c.must_raise = [(n, t, c.why) for n, t in calls]
            if "30000" in c.why:
                # an implausibly large event time: if the validator under test is broken the metric goes on to
                # compute on it -- beat.p_score would correlate impulse trains of (time * 100) samples, which does
                # not terminate in any useful time.  Its siblings share the validator and are cheap: judge those.
                c.must_raise = [x for x in c.must_raise if not x[0].endswith(".p_score")]
            # evaluate(): onset has no pre-processing; beat drops beats before 5 s first -- if the offence
            # survives that documented trimming, evaluate() must reject it too
            if not trim:
                c.must_raise.append((ev[0], ev[1], c.why))
            else:
                rt, et = r[r >= 5.0], e[e >= 5.0]
                if combine(events_class(rt), events_class(et))[0] == INVALID and "30000" not in c.why:
                    c.must_raise.append((ev[0], ev[1], c.why + " (still there after trimming beats before 5 s)"))
                else:
                    c.type_only = [ev]
        return c
    return adapt


def a_align(me, d):
    import numpy as np

    r, e = d["ref"], d["est"]
    c = Case()
    al = me.alignment
    if not _finite(r, e):
        c.verdict, c.why = UNSPEC, "non-finite"
    elif r.size == 0 or r.size != e.size or np.any(np.diff(r) < 0) or np.any(np.diff(e) < 0) or np.any(r < 0) or np.any(e < 0):
        c.verdict, c.why = INVALID, "empty reference / unequal counts / unsorted / negative timestamps"
    elif r[-1] <= r[0]:
        c.verdict, c.why = UNSPEC, "all reference timestamps identical (documented PCS error)"
    else:
        c.verdict = VALID
    names = ["absolute_error", "percentage_correct", "percentage_correct_segments", "karaoke_perceptual_metric"]
    calls = [("alignment." + m, (lambda m=m: getattr(al, m)(r, e))) for m in names]
    ev = ("alignment.evaluate", lambda: al.evaluate(r, e))
    if c.verdict == VALID:
        c.must_return = calls + [ev]
    elif c.verdict == INVALID:
        c.must_raise = [(n, t, c.why) for n, t in calls] + [(ev[0], ev[1], c.why)]
    if c.verdict in (VALID, UNSPEC) and _finite(r, e) and r.size and r.size == e.size and not (
            np.any(np.diff(r) < 0) or np.any(np.diff(e) < 0) or np.any(r < 0) or np.any(e < 0)):
        # with an explicit total duration the segments are (0, t1) ... (tN, duration): a single or all-identical
        # reference timestamp is then a valid degenerate annotation
        dur = float(max(r.max(), e.max())) + 1.0
        c.must_return = list(c.must_return) + [
            ("alignment.percentage_correct_segments[duration]", lambda: al.percentage_correct_segments(r, e, duration=dur)),
            ("alignment.evaluate[duration]", lambda: al.evaluate(r, e, duration=dur))]
    return c


def _seg_struct(iv):
    """Is this side a segmentation in the documented sense (sorted, contiguous)?"""
    return iv.shape[0] >= 1 and contiguous(iv)


def a_segment(me, d):
    import numpy as np

    (ri, rl), (ei, el) = d["ref"], d["est"]
    sg = me.segment
    c = Case()
    base, why = combine(intervals_class(ri), intervals_class(ei))
    b_calls = [("segment.detection", lambda: sg.detection(ri, ei)), ("segment.detection[trim]", lambda: sg.detection(ri, ei, trim=True)),
               ("segment.deviation", lambda: sg.deviation(ri, ei))]
    s_names = ["pairwise", "rand_index", "ari", "mutual_information", "nce", "vmeasure"]
    s_calls = [("segment." + m, (lambda m=m: getattr(sg, m)(ri, rl, ei, el))) for m in s_names]
    ev = ("segment.evaluate", lambda: sg.evaluate(ri, rl, ei, el))
    c.verdict, c.why = base, why
    if base == UNSPEC:
        return c
    if base == INVALID:
        c.must_raise = [(n, t, why) for n, t in b_calls + s_calls]
        c.type_only = [ev]
        return c
    # intervals are individually fine; structure conventions
    if ri.shape[0] == 0:
        c.verdict, c.why = UNSPEC, "empty reference segmentation"
        return c
    if not _seg_struct(ri) or (ei.shape[0] and not _seg_struct(ei)):
        c.verdict, c.why = UNSPEC, "not a sorted contiguous segmentation (documentation silent)"
        return c
    starts0 = ri[0, 0] == 0.0 and (ei.shape[0] == 0 or ei[0, 0] == 0.0)
    ends_eq = ei.shape[0] > 0 and ri[-1, 1] == ei[-1, 1]
    clearly_off = (not np.allclose(ri.min(), 0.0)) or (ei.shape[0] and not np.allclose(ei.min(), 0.0)) or \
                  (ei.shape[0] and not np.allclose(ri.max(), ei.max()))
    if ei.shape[0] and ei[0, 0] >= ri[-1, 1]:
        c.verdict, c.why = UNSPEC, "estimate lies wholly after the reference"
        return c
    if ri[-1, 1] < 1.0:
        c.verdict, c.why = UNSPEC, "reference shorter than ten default analysis frames"
        return c
    if ri[0, 0] != 0.0:
        # a reference that does not start at 0: evaluate() pads it; documented only for the estimate
        c.verdict, c.why = UNSPEC, "reference does not start at 0"
        if clearly_off:
            c.must_raise = [(n, t, "segmentation does not start at 0 / ends differ") for n, t in s_calls]
        return c
    c.verdict = VALID
    c.must_return = [ev]
    if ei.shape[0]:
        c.must_return += b_calls
    if starts0 and ends_eq:
        c.must_return += s_calls
    elif clearly_off and ei.shape[0]:
        c.must_raise = [(n, t, "segmentations do not start at 0 / end together") for n, t in s_calls]
    return c


def a_chord(me, d):
    import numpy as np

    (ri, rl), (ei, el) = d["ref"], d["est"]
    ch = me.chord
    c = Case()
    c.allowed = (ValueError, ch.InvalidChordException)
    ivv, why = combine(intervals_class(ri), intervals_class(ei))
    lab_cls = [chord_label_class(l) for l in rl + el]
    cmp_names = ["thirds", "thirds_inv", "triads", "triads_inv", "tetrads", "tetrads_inv", "root", "mirex", "majmin", "majmin_inv",
                 "sevenths", "sevenths_inv"]
    seg_calls = [("chord." + m, (lambda m=m: getattr(ch, m)(ri, ei))) for m in ("overseg", "underseg", "seg")]
    ev = ("chord.evaluate", lambda: ch.evaluate(ri, rl, ei, el))
    c.verdict, c.why = ivv, why
    # labels judged on their own: every comparison function on (labels, labels)
    for side, labs in (("ref", rl), ("est", el)):
        cls = [chord_label_class(l) for l in labs]
        if labs and any(x == INVALID for x in cls):
            bad = [l for l, x in zip(labs, cls) if x == INVALID][0]
            # the other argument is an all-'N' list of the same length, so that the side under test is the only
            # place the malformed label can be rejected from
            other = ["N"] * len(labs)
            pair = (lambda labs=labs, other=other: (labs, other)) if side == "ref" else (lambda labs=labs, other=other: (other, labs))
            c.must_raise += [("chord.%s[%s labels]" % (m, side), (lambda m=m, pair=pair: getattr(ch, m)(*pair())),
                              "malformed chord label %r" % bad) for m in cmp_names]
            c.verdict, c.why = (INVALID if c.verdict != UNSPEC else UNSPEC), c.why + "; malformed chord label %r" % bad
        elif labs and all(x == VALID for x in cls):
            other = ["N"] * len(labs)
            pair = (lambda labs=labs, other=other: (labs, other)) if side == "ref" else (lambda labs=labs, other=other: (other, labs))
            c.must_return += [("chord.%s[%s labels]" % (m, side), (lambda m=m, pair=pair: getattr(ch, m)(*pair()))) for m in cmp_names]
    if ivv == UNSPEC:
        c.must_return, c.must_raise = [], [x for x in c.must_raise]
        return c
    if ri.shape[0] == 0 or ei.shape[0] == 0:
        c.verdict, c.why = UNSPEC, "empty chord annotation"
        return c
    overlap = lambda iv: iv.shape[0] > 1 and bool(np.any(iv[:-1, 1] > iv[1:, 0]))  # noqa: E731
    if ivv == INVALID or overlap(ri) or overlap(ei):
        w = why or "overlapping chord intervals"
        c.must_raise += [(n, t, w) for n, t in seg_calls]
        # evaluate() crops the estimate to the reference span first; an overlap in the reference, or an
        # overlap between two estimated intervals lying inside the reference span, survives that
        inside = False
        # (evaluate() also merges consecutive intervals carrying the same chord, which removes an overlap
        # between them: only overlaps between chords with different roots count)
        ref_hard = ivv == VALID and any(ri[k, 1] > ri[k + 1, 0] and _root(rl[k]) != _root(rl[k + 1]) for k in range(ri.shape[0] - 1))
        if ivv == VALID and overlap(ei) and not overlap(ri):
            lo, hi = ri.min(), ri.max()
            for k in range(ei.shape[0] - 1):
                if ei[k, 1] > ei[k + 1, 0] and ei[k, 0] >= lo and ei[k + 1, 1] <= hi and ei[k, 1] <= hi and ei[k + 1, 0] >= lo \
                        and _root(el[k]) != _root(el[k + 1]):
                    inside = True
        if ivv == VALID and all(x == VALID for x in lab_cls) and contiguous_or_overlapping(ri) and (ref_hard or inside):
            c.must_raise.append((ev[0], ev[1], w + " (not removed by cropping to the reference span)"))
        else:
            c.type_only.append(ev)
        c.verdict, c.why = INVALID, c.why + "; " + w
        return c
    if any(x != VALID for x in lab_cls):
        if c.verdict == INVALID:
            c.type_only.append(ev)
        return c
    if not contiguous(ri) or not contiguous(ei):
        c.verdict, c.why = UNSPEC, "gaps between chord intervals (documentation silent)"
        return c
    if ei[0, 0] >= ri[-1, 1] or ei[-1, 1] <= ri[0, 0]:
        c.verdict, c.why = UNSPEC, "estimate lies wholly outside the reference span"
        return c
    c.verdict = VALID
    c.must_return += seg_calls + [ev]
    return c


def a_hier(me, d):
    import numpy as np

    hi = me.hierarchy
    c = Case()
    sides = {}
    for side in ("ref", "est"):
        lv = sorted(k for k in d if k.startswith(side))
        sides[side] = ([d[k][0] for k in lv], [d[k][1] for k in lv])
    (riv, rlb), (eiv, elb) = sides["ref"], sides["est"]
    c.verdict, c.why = combine(*[intervals_class(iv) for iv in riv + eiv])
    fs = 0.5
    t_call = ("hierarchy.tmeasure", lambda: hi.tmeasure(riv, eiv, frame_size=fs))
    l_call = ("hierarchy.lmeasure", lambda: hi.lmeasure(riv, rlb, eiv, elb, frame_size=fs))
    ev = ("hierarchy.evaluate", lambda: hi.evaluate(riv, rlb, eiv, elb, frame_size=fs))
    if c.verdict == UNSPEC:
        return c
    if c.verdict == INVALID:
        c.must_raise = [(t_call[0], t_call[1], c.why), (l_call[0], l_call[1], c.why)]
        c.type_only = [ev]
        return c
    if any(iv.shape[0] == 0 or not contiguous(iv) for iv in riv + eiv):
        c.verdict, c.why = UNSPEC, "empty or non-contiguous level"
        return c

    def span_ok(ivs):
        return all(iv[0, 0] == 0.0 for iv in ivs) and all(iv[-1, 1] == ivs[0][-1, 1] for iv in ivs)

    def span_off(ivs):
        return any(not np.allclose(iv[0, 0], 0.0) for iv in ivs) or any(not np.allclose(iv[-1, 1], ivs[0][-1, 1]) for iv in ivs)

    if span_off(riv) or span_off(eiv):
        c.verdict, c.why = INVALID, "levels of a hierarchy do not start at 0 / end together"
        c.must_raise = [(t_call[0], t_call[1], c.why), (l_call[0], l_call[1], c.why)]
        c.type_only = [ev]
        return c
    if not (span_ok(riv) and span_ok(eiv)):
        c.verdict, c.why = UNSPEC, "level spans differ within tolerance"
        return c
    if eiv[0][0, 0] >= riv[0][-1, 1]:
        c.verdict = UNSPEC
        return c
    c.verdict = VALID
    c.must_return = [ev]
    if riv[0][-1, 1] == eiv[0][-1, 1]:
        c.must_return += [t_call, l_call]
    return c


def a_melody(me, d):
    import numpy as np

    (rt, rf), (et, ef) = d["ref"], d["est"]
    ml = me.melody
    c = Case()
    if not _finite(rt, rf, et, ef):
        c.verdict, c.why = UNSPEC, "non-finite"
        return c
    if rt.size == 0 or et.size == 0:
        # the melody metrics define a score (0, with a warning) for empty arrays, so an empty stored
        # series is a valid degenerate input of evaluate(); judged under its own site
        c.verdict, c.why = VALID, "empty melody series"
        c.must_return = [("melody.evaluate[empty series]", lambda: ml.evaluate(rt, rf, et, ef))]
        return c
    if np.any(np.diff(rt) <= 1e-6) or np.any(np.diff(et) <= 1e-6) or rt[0] < 0 or et[0] < 0:
        c.verdict, c.why = UNSPEC, "times not clearly increasing (closer than 1 us) / negative (no validator documented)"
        return c
    if 0 < rt[0] <= 1e-6 or 0 < et[0] <= 1e-6:
        c.verdict, c.why = UNSPEC, "first time stamp closer than 1 us to 0"
        return c
    if rt[-1] > HORIZON or et[-1] > HORIZON:
        c.verdict, c.why = UNSPEC, "time beyond the harness horizon"
        return c
    c.verdict = VALID
    # the optional voicing / reward arrays, derived from the loaded series the way the docstring describes them
    ev_arr = (ef > 0).astype(float)
    rr_arr = np.where(rf > 0, 1.0, 0.5)
    c.must_return = [("melody.evaluate", lambda: ml.evaluate(rt, rf, et, ef)),
                     ("melody.evaluate[est_voicing]", lambda: ml.evaluate(rt, rf, et, ef, est_voicing=ev_arr.copy())),
                     ("melody.evaluate[ref_reward]", lambda: ml.evaluate(rt, rf, et, ef, ref_reward=rr_arr.copy())),
                     ("melody.evaluate[est_voicing,ref_reward]", lambda: ml.evaluate(rt, rf, et, ef, est_voicing=ev_arr.copy(), ref_reward=rr_arr.copy()))]

    def via_cent(name):
        def thunk():
            rv, rc, ev_, ec = ml.to_cent_voicing(rt, rf, et, ef)
            fn = getattr(ml, name)
            return fn(rv, ev_) if name.startswith("voicing") else fn(rv, rc, ev_, ec)
        return thunk

    c.must_return += [("melody." + m, via_cent(m)) for m in
                      ("voicing_measures", "raw_pitch_accuracy", "raw_chroma_accuracy", "overall_accuracy")]
    return c


def a_multipitch(me, d):
    import numpy as np

    (rt, rf), (et, ef) = d["ref"], d["est"]
    mp = me.multipitch
    c = Case()
    allf = [f for fr in rf + ef for f in fr.tolist()]
    if not _finite(rt, et, np.array(allf, dtype=float)):
        c.verdict, c.why = UNSPEC, "non-finite"
        return c
    tv = combine(events_class(rt), events_class(et))
    if tv[0] == VALID and ((rt.size and rt[-1] > HORIZON) or (et.size and et[-1] > HORIZON)):
        tv = (UNSPEC, "time beyond the harness horizon")
    fv = (VALID, "")
    if any(f < 0 for f in allf):
        fv = (UNSPEC, "negative frequency")
    elif any((abs(f) > 5000.0 or abs(f) < 20.0) for f in allf):
        fv = (INVALID, "frequency outside [20, 5000] Hz")
    c.verdict, c.why = combine(tv, fv)
    calls = [("multipitch.metrics", lambda: mp.metrics(rt, rf, et, ef)), ("multipitch.evaluate", lambda: mp.evaluate(rt, rf, et, ef))]
    if c.verdict == INVALID:
        c.must_raise = [(n, t, c.why) for n, t in calls]
    elif c.verdict == VALID:
        if np.any(np.diff(rt) <= 1e-6) or np.any(np.diff(et) <= 1e-6):
            c.verdict, c.why = UNSPEC, "time stamps closer than 1 us (resampling undefined)"
            return c
        c.must_return = calls
    return c


def a_notes(velocity):
    def adapt(me, d):
        import numpy as np

        (ri, rp), (ei, ep) = d["ref"], d["est"]
        tr = me.transcription
        c = Case()
        pv = (VALID, "")
        if not _finite(rp, ep):
            pv = (UNSPEC, "non-finite pitch")
        elif (rp.size and rp.min() <= 0) or (ep.size and ep.min() <= 0):
            pv = (INVALID, "non-positive pitch")
        c.verdict, c.why = combine(intervals_class(ri), intervals_class(ei), pv)
        iv_bad = combine(intervals_class(ri), intervals_class(ei))[0] == INVALID
        # only the functions the module documents as metrics (match_notes etc. are matching helpers)
        calls = [("transcription.precision_recall_f1_overlap", lambda: tr.precision_recall_f1_overlap(ri, rp, ei, ep))]
        iv_calls = [("transcription.onset_precision_recall_f1", lambda: tr.onset_precision_recall_f1(ri, ei)),
                    ("transcription.offset_precision_recall_f1", lambda: tr.offset_precision_recall_f1(ri, ei))]
        ev = ("transcription.evaluate", lambda: tr.evaluate(ri, rp, ei, ep))
        if velocity:
            tv = me.transcription_velocity
            (ri2, rv), (ei2, evl) = d["ref_vel"], d["est_vel"]
            vcalls = [("transcription_velocity.precision_recall_f1_overlap", lambda: tv.precision_recall_f1_overlap(ri, rp, rv, ei, ep, evl)),
                      ("transcription_velocity.evaluate", lambda: tv.evaluate(ri, rp, rv, ei, ep, evl))]
            vv = (VALID, "")
            if not _finite(rv, evl):
                vv = (UNSPEC, "non-finite velocity")
            elif rv.shape[0] != rp.shape[0] or evl.shape[0] != ep.shape[0]:
                vv = (INVALID, "notes, pitches and velocities of unequal length")
            elif (rv.size and rv.min() < 0) or (evl.size and evl.min() < 0):
                vv = (INVALID, "negative velocity")
            whole, whyv = combine((c.verdict, c.why), vv)
            if whole == INVALID:
                c.must_raise += [(n, t, whyv) for n, t in vcalls]
            elif whole == VALID:
                c.must_return += vcalls
        if c.verdict == INVALID:
            c.must_raise += [(n, t, c.why) for n, t in calls + [ev]]
            if iv_bad:
                c.must_raise += [(n, t, c.why) for n, t in iv_calls]
        elif c.verdict == VALID:
            c.must_return += calls + iv_calls + [ev]
        return c
    return adapt


def a_pattern(me, d):
    pt = me.pattern
    r, e = d["ref"], d["est"]
    c = Case()
    c.verdict = VALID
    names = ["standard_FPR", "establishment_FPR", "occurrence_FPR", "three_layer_FPR", "first_n_three_layer_P", "first_n_target_proportion_R"]
    c.must_return = [("pattern." + m, (lambda m=m: getattr(pt, m)(r, e))) for m in names] + [("pattern.evaluate", lambda: pt.evaluate(r, e))]
    return c


def key_class(k):
    parts = k.split(" ", 1)
    if len(parts) != 2:
        return INVALID
    v = M.convention_violation("key", [(parts[0], parts[1])])
    return VALID if v is False else (INVALID if v is True else UNSPEC)


def a_key(me, d):
    ky = me.key
    r, e = d["ref"], d["est"]
    c = Case()
    c.verdict, c.why = combine((key_class(r), "reference key %r" % r), (key_class(e), "estimated key %r" % e))
    calls = [("key.weighted_score", lambda: ky.weighted_score(r, e)), ("key.evaluate", lambda: ky.evaluate(r, e))]
    if c.verdict == VALID:
        c.must_return = calls
    elif c.verdict == INVALID:
        c.must_raise = [(n, t, c.why) for n, t in calls]
    return c


def a_tempo(me, d):
    import numpy as np

    tp = me.tempo
    (rt, rw), (et, _) = d["ref"], d["est"]
    c = Case()
    if np.any(np.isnan(rt)) or np.any(np.isnan(et)):
        c.verdict = UNSPEC
        return c
    bad = bool(np.any(rt < 0) or np.any(et < 0) or np.any(np.isinf(rt)) or np.any(np.isinf(et)) or np.all(rt == 0))
    c.verdict, c.why = (INVALID, "negative / non-finite tempo or reference tempi both zero") if bad else (VALID, "")
    calls = [("tempo.detection", lambda: tp.detection(rt, rw, et)), ("tempo.evaluate", lambda: tp.evaluate(rt, rw, et))]
    if c.verdict == VALID:
        c.must_return = calls
    else:
        c.must_raise = [(n, t, c.why) for n, t in calls]
    return c


BEAT_METRICS = ["f_measure", "cemgil", "goto", "p_score", "continuity", "information_gain"]
TASKS = {
    "beat": (w_events, a_events("beat", BEAT_METRICS, trim=True)),
    "onset": (w_events, a_events("onset", ["f_measure"])),
    "alignment": (w_align, a_align),
    "segment": (w_segment, a_segment),
    "chord": (w_chord, a_chord),
    "hierarchy": (w_hier, a_hier),
    "melody": (w_melody, a_melody),
    "multipitch": (w_multipitch, a_multipitch),
    "transcription": (w_notes, a_notes(False)),
    "transcription_velocity": (w_notes, a_notes(True)),
    "pattern": (w_pattern, a_pattern),
    "key": (w_key, a_key),
    "tempo": (w_tempo, a_tempo),
}
TASK_WEIGHTS = ["beat", "onset", "alignment", "segment", "segment", "segment", "chord", "chord", "chord", "hierarchy", "melody",
                "multipitch", "transcription", "transcription_velocity", "pattern", "key", "tempo"]


# --------------------------------------------------------------------------------------
# plan generation
# --------------------------------------------------------------------------------------
def gen_plan(rng, tier, i):
    cfg = {"bufsize": rng.choice([16, 64, 8192]), "fault_p": rng.choice([0.0, 0.4, 0.7, 1.0]),
           "kinds": rng.sample(M.FAULT_KINDS, rng.randrange(3, len(M.FAULT_KINDS) + 1)),
           "dev": rng.random() < 0.4, "multi": rng.random() < 0.15}
    steps = []
    for _ in range(rng.randrange(8, 15)):
        task = rng.choice(TASK_WEIGHTS)
        files = TASKS[task][0](rng, task)
        mode = files.pop("_mode", None)
        fault = None
        if cfg["fault_p"] and rng.random() < cfg["fault_p"]:
            for _ in range(rng.choice([2, 3]) if cfg["multi"] else 1):
                name = rng.choice(sorted(files))
                r = M.apply_fault(rng, files[name]["text"], rng.choice(cfg["kinds"]))
                if r is not None:
                    files[name]["text"], fd = r
                    files[name]["faults"].append(fd)
                    fault = fd["kind"]
        if cfg["dev"]:
            for name in files:
                if rng.random() < 0.5:
                    files[name]["dev"] = {"chunks": [rng.choice([1, 3, 7, 16]) for _ in range(3)],
                                          "eintr": sorted(set(rng.randrange(0, 8) for _ in range(2)))}
        edit = None
        if rng.random() < 0.25:
            # a second act for this step: the caller edits one of the LOADED arrays in place (a single-value
            # corruption, same objects) after the first evaluation and evaluates again
            kinds = {"beat": ["unsort", "huge", "unsort_inner"], "onset": ["unsort", "huge", "unsort_inner"], "alignment": ["unsort", "negative", "unsort_inner", "negative_inner"],
                     "segment": ["zero_duration", "negative"], "chord": ["zero_duration", "negative"],
                     "transcription": ["zero_duration", "negative", "pitch_zero"], "transcription_velocity": ["zero_duration", "pitch_zero"],
                     "multipitch": ["unsort", "freq_range"], "tempo": ["tempo_negative"], "key": ["key_mode_case", "key_mode_case", "key_unknown"]}
            edit = {"kind": rng.choice(kinds.get(task, ["unsort"])), "side": rng.choice(["ref", "est"]), "pick": rng.random()}
        steps.append({"task": task, "files": files, "access": rng.choice(["path", "path", "stringio"]), "fault": fault, "mode": mode,
                      "edit": edit})
    return {"prop": PROP, "cfg": cfg, "steps": steps}


def apply_edit(task, d, edit):
    """In-place single-value corruption of a loaded array (the caller's own objects).  -> description or None."""
    import numpy as np

    side, kind, pick = edit["side"], edit["kind"], edit["pick"]

    def idx(n):
        return min(n - 1, int(pick * n))

    if task in ("beat", "onset", "alignment"):
        a = d[side]
        if kind == "unsort" and a.size >= 2 and a[0] != a[-1]:
            a[0], a[-1] = a[-1], a[0]
            return "swapped first and last %s event in place" % side
        if kind == "unsort_inner" and a.size >= 4 and a[1] != a[-2]:
            a[1], a[-2] = a[-2], a[1]  # first / last value and length unchanged
            return "swapped the second and the second-to-last %s event in place" % side
        if kind == "negative_inner" and a.size >= 3 and task == "alignment":
            a[1] = -1.0
            return "set the second %s timestamp to -1 in place" % side
        if kind == "huge" and a.size >= 1 and task != "alignment":
            a[-1] = 1e6
            return "set the last %s event to 1e6 s in place" % side
        if kind == "negative" and a.size >= 1 and task == "alignment":
            a[0] = -1.0
            return "set the first %s timestamp to -1 in place" % side
        return None
    if task in ("segment", "chord", "transcription", "transcription_velocity"):
        iv = d[side][0]
        if kind == "zero_duration" and iv.shape[0] >= 1:
            k = idx(iv.shape[0])
            iv[k, 1] = iv[k, 0]
            return "set %s interval %d to zero duration in place" % (side, k)
        if kind == "negative" and iv.shape[0] >= 1:
            iv[0, 0] = -0.5
            return "set the first %s start time to -0.5 in place" % side
        if kind == "pitch_zero" and task.startswith("transcription") and d[side][1].size >= 1:
            k = idx(d[side][1].size)
            d[side][1][k] = 0.0
            return "set %s pitch %d to 0 Hz in place" % (side, k)
        return None
    if task == "multipitch":
        t, fr = d[side]
        if kind == "unsort" and t.size >= 2 and t[0] != t[-1]:
            t[0], t[-1] = t[-1], t[0]
            return "swapped first and last %s time in place" % side
        if kind == "freq_range":
            ks = [k for k, f in enumerate(fr) if f.size]
            if ks:
                k = ks[idx(len(ks))]
                fr[k][0] = 10.0
                return "set a %s frequency to 10 Hz in place" % side
        return None
    if task == "key":
        # strings cannot be edited in place: the second act scores a near-variant of the key just scored
        parts = d[side].split(" ", 1)
        if len(parts) == 2 and kind == "key_mode_case":
            d[side] = parts[0] + " " + (parts[1].capitalize() if pick < 0.5 else parts[1].upper())
            return "scored the %s key again with the mode spelled %r" % (side, d[side].split(" ", 1)[1])
        if len(parts) == 2 and kind == "key_unknown":
            d[side] = "H " + parts[1]
            return "scored the %s key again with the tonic 'H'" % side
        return None
    if task == "tempo":
        if kind == "tempo_negative":
            d[side][0][0] = -abs(d[side][0][0]) - 1.0
            return "negated the first %s tempo in place" % side
        return None
    return None


# --------------------------------------------------------------------------------------
# execution
# --------------------------------------------------------------------------------------
def _try(thunk):
    try:
        return ("ok", thunk())
    except Exception as e:  # noqa: BLE001
        return ("exc", e)


def execute(plan, want_logs=False):
    me = core.import_target()
    import mir_eval.io as mio

    log = core.EventLog(keep=want_logs)
    stats = core.Stats()
    seams.WARN.install()
    fired = {}
    fs = seams.SimFS(bufsize=plan["cfg"].get("bufsize", 8192), fired=fired)
    violations, seen = [], set()

    def report(cls, site, detail):
        if (cls, site) not in seen:
            seen.add((cls, site))
            violations.append(core.violation(cls, site, detail))

    tmpdir = tempfile.mkdtemp(prefix="mirsim-c14-")
    try:
        return _execute_steps(plan, me, mio, fs, fired, tmpdir, stats, log, report, violations, want_logs)
    finally:
        shutil.rmtree(tmpdir, ignore_errors=True)


def _execute_steps(plan, me, mio, fs, fired, tmpdir, stats, log, report, violations, want_logs):
    for n, step in enumerate(plan["steps"]):
        task = step["task"]
        data, failed = {}, None
        for name in sorted(step["files"]):
            spec = step["files"][name]
            fn = getattr(mio, M.LOADER[spec["fmt"]])
            kw = M.loader_kwargs(spec["style"]) if spec["fmt"] != "patterns" else {}
            path = os.path.join(tmpdir, "s%d_%s.txt" % (n, name))
            fs.files[path] = spec["text"].encode("utf-8")
            fs.dev[path] = spec.get("dev") or {}
            if step["access"] == "path":
                with open(path, "wb") as fh:
                    fh.write(fs.files[path])
            try:
                if step["access"] == "path":
                    with seams.PatchedOpen(fs):
                        data[name] = fn(path, **kw)
                else:
                    data[name] = fn(io.StringIO(spec["text"]), **kw)
            except Exception as e:  # noqa: BLE001 -- loader behaviour is C20's business
                failed = type(e).__name__
                break
        seams.WARN.take()
        fk = step.get("fault") or "none"
        stats.inc("steps")
        stats.inc("fault.storage." + fk)
        if failed:
            stats.inc("load_failed")
            stats.see("tuples", (task, fk, "LOAD_FAILED", "-", failed))
            log.add("step", n, task, fk, "load_failed", failed)
            continue
        acts = [(fk, None)]
        if step.get("edit"):
            acts.append(("inplace:" + step["edit"]["kind"], step["edit"]))
        first_verdict = None
        for fk, edit in acts:
            if edit is not None:
                if first_verdict != VALID:
                    break
                what = apply_edit(task, data, edit)
                if what is None:
                    break
                stats.inc("fault.inplace_edit." + edit["kind"])
            case = TASKS[task][1](me, data)
            if edit is None:
                first_verdict = case.verdict
            _judge_case(n, task, fk, case, step, stats, log, report, what if edit is not None else None)
    for k, v in fired.items():
        stats.inc("fault.dev." + k, v)
    return {"violations": violations, "stats": stats.dump(), "log_digest": log.digest(), "n_events": log.n,
            "log_events": log.events if want_logs else None}


def _judge_case(n, task, fk, case, step, stats, log, report, edited):
    if True:
        stats.inc("verdict." + case.verdict)
        stats.inc("task.%s.%s" % (task, case.verdict))
        if step.get("mode") and edited is None:
            stats.inc("probe.span_mode.%s" % step["mode"])
        outcomes = []
        ctx = "step %d task=%s fault=%s%s verdict=%s%s" % (n, task, fk, (" [caller %s after a first, successful evaluation]" % edited) if edited else "",
                                                         case.verdict, (" (" + case.why + ")") if case.why else "")
        for name, thunk in case.must_return:
            out = _try(thunk)
            stats.inc("calls")
            stats.inc("must_return")
            outcomes.append((name, out[0] if out[0] == "ok" else type(out[1]).__name__))
            stats.see("tuples", (task, fk, "VALID", name, outcomes[-1][1]))
            if out[0] == "exc":
                report("RAISED_ON_VALID", name, "%s: %s raised %s: %s" % (ctx, name, type(out[1]).__name__, core.scrub(str(out[1]))[:200]))
        for name, thunk, why in case.must_raise:
            out = _try(thunk)
            stats.inc("calls")
            stats.inc("must_raise")
            outcomes.append((name, out[0] if out[0] == "ok" else type(out[1]).__name__))
            stats.see("tuples", (task, fk, "INVALID_CHECKED", name, outcomes[-1][1]))
            if out[0] == "ok":
                report("SCORED_INVALID", name, "%s: %s returned %s although: %s" % (ctx, name, core.brief(out[1], 120), why))
            elif not isinstance(out[1], case.allowed):
                report("WRONG_EXCEPTION", name + ":" + type(out[1]).__name__, "%s: %s raised %s (%s) for: %s" % (
                    ctx, name, type(out[1]).__name__, core.scrub(str(out[1]))[:120], why))
        for name, thunk in case.type_only:
            out = _try(thunk)
            stats.inc("calls")
            stats.inc("type_only")
            outcomes.append((name, out[0] if out[0] == "ok" else type(out[1]).__name__))
            stats.see("tuples", (task, fk, "INVALID_CHECKED/type-only", name, outcomes[-1][1]))
            if out[0] == "exc" and not isinstance(out[1], case.allowed):
                report("WRONG_EXCEPTION", name + ":" + type(out[1]).__name__, "%s: %s raised %s (%s) on convention-violating input" % (
                    ctx, name, type(out[1]).__name__, core.scrub(str(out[1]))[:120]))
        seams.WARN.take()
        log.add("step", n, task, fk, case.verdict, outcomes)


# --------------------------------------------------------------------------------------
# minimisation / reporting
# --------------------------------------------------------------------------------------
def size(plan):
    s = 20 * len(plan["steps"])
    for st in plan["steps"]:
        for spec in st["files"].values():
            s += M.n_lines(spec["text"]) + len(spec["text"]) / 1000.0 + (2 if spec.get("dev") else 0)
        s += 0 if st["access"] == "stringio" else 1
    return s


def shrink(plan, test, budget):
    plan = copy.deepcopy(plan)

    def t_steps(steps):
        return test(dict(plan, steps=steps))

    plan["steps"] = core.ddmin_list(plan["steps"], t_steps, budget)
    for j, st in enumerate(plan["steps"]):
        if st["access"] != "stringio" or any(s.get("dev") for s in st["files"].values()):
            cand = copy.deepcopy(plan)
            cand["steps"][j]["access"] = "stringio"
            for s in cand["steps"][j]["files"].values():
                s["dev"] = {}
            if test(cand):
                plan = cand
        for name in sorted(st["files"]):
            spec = plan["steps"][j]["files"][name]
            n = M.n_lines(spec["text"])
            if n <= 1:
                continue

            def t(keep, j=j, name=name, spec=spec):
                cand = copy.deepcopy(plan)
                cand["steps"][j]["files"][name]["text"] = M.drop_lines(spec["text"], set(keep))
                return test(cand)

            keep = core.ddmin_list(list(range(n)), t, budget)
            if len(keep) < n:
                plan["steps"][j]["files"][name]["text"] = M.drop_lines(spec["text"], set(keep))
    return plan


def describe(plan, res):
    return {"cfg": plan["cfg"], "steps": [{"task": s["task"], "access": s["access"], "fault": s["fault"], "mode": s.get("mode"),
                                          "files": {k: v["text"][:300] for k, v in s["files"].items()}} for s in plan["steps"][:3]],
            "log_digest": res["log_digest"]}


def coverage(agg, tier, n_runs, wall, extra):
    st = agg["stats"]
    c = st.count
    return {
        "evaluations": c.get("calls", 0),
        "distinct_nontrivial": len([t for t in st.distinct.get("tuples", ()) if t[2] != "LOAD_FAILED"]),
        "rule": RULE,
        "samples": agg["samples"][:3],
        "pipeline_steps": c.get("steps", 0),
        "steps_stopped_at_loader": c.get("load_failed", 0),
        "calls": {"must_return": c.get("must_return", 0), "must_raise": c.get("must_raise", 0), "exception_type_only": c.get("type_only", 0)},
        "verdicts": {k.split(".", 1)[1]: v for k, v in c.items() if k.startswith("verdict.")},
        "per_task_verdicts": {k.split(".", 1)[1]: v for k, v in sorted(c.items()) if k.startswith("task.")},
        "faults_fired": {k.split(".", 1)[1]: v for k, v in sorted(c.items()) if k.startswith("fault.")},
        "probes": {k.split(".", 1)[1]: v for k, v in sorted(c.items()) if k.startswith("probe.")},
        "distinct_interleavings": len(st.distinct.get("tuples", ())),
        "distinct_interleavings_measure": "no thread interleaving; distinct (task, fault kind, verdict, function, outcome) tuples",
        "components": {
            "real": ["mir_eval.io loaders, every task module's evaluate() and metric functions, util pre-processing (tree under test)",
                     "Python BufferedReader/TextIOWrapper"],
            "stub": ["SimFS/SimRaw", "annotation writers", "convention model (oracle)"],
        },
    }
