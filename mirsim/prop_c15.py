"""C15 -- evaluation is pure: inputs never modified, results repeatable.

A campaign of calls to every public function on a pool of SHARED caller-owned objects, in
seeded histories (sequence, repeats, A-B-A, forward+reverse, several caller threads pre-empted
at line granularity, asynchronous aborts), on a poisoned heap.  Invariants after every
scheduler event: I1 pool integrity, I2 library-state integrity, I3 result == solo reference
(the same op executed alone, in a fresh fork, on a fresh pool, under another heap poison).
DESIGN.md section 3.
"""

import copy
import io
import os
import random
import struct
import threading

from . import core, ops, pool as P, seams
from .ops import R

PROP = "C15"
RUNS = {"quick": 320, "thorough": 12000}
RUN_TIMEOUT = 180.0
CAMPAIGN_WALL = {"quick": 420.0, "thorough": 6000.0}  # per phase (campaign, walks); see core._worker_loop
MAX_TRACE_EVENTS = 60000
ASSUMPTIONS = [
    "the solo reference is computed by the same code (fresh fork, fresh pool, no predecessor, other heap poison): the check "
    "decides dependence on history / sharing / heap content, not correctness of the value",
    "'in any order relative to other mir_eval calls' is read to include calls overlapping from several caller threads; a "
    "difference seen only under overlap is classed CONCURRENT_DIFFERS",
    "only numpy.empty / numpy.empty_like called from mir_eval frames are poisoned; uninitialised reads inside numpy/scipy are out of reach",
    "pre-emption granularity is the source line inside mir_eval frames",
    "bit-identity is judged on canonical digests (dtype, shape, raw bytes; sets sorted); BLAS is pinned to one thread",
]
RULE = ("each run: a pool of 8-20 shared annotation bundles (2-4 task groups), 20-60 ops drawn from templates for every public "
        "function, arranged as sequence / repeats / A-B-A / forward+reverse / 2-4 caller threads with line-level pre-emption / "
        "with aborts, under one of five heap poisons; every op also runs alone in a fork under another poison. "
        "non-trivial+distinct = distinct ordered pairs (previous op's function, op's function) executed with I3 checked where "
        "the op shares at least one pool object with an earlier op of the run")

GROUPS = {
    "beat": [("events", {}), ("events", {}), ("events", {})],
    "segment": [("segments", {}), ("segments", {}), ("segments", {"span": "longer"}), ("segments", {"span": "shorter"}), ("segments", {"span": "late"})],
    "chord": [("chords", {}), ("chords", {}), ("chords", {"span": "longer"}), ("chords", {"span": "late"}), ("chordlabels", {}), ("chordlabels", {})],
    "hier": [("hier", {}), ("hier", {}), ("hier", {})],
    "melody": [("melody", {}), ("melody", {}), ("melody", {})],
    "multipitch": [("multipitch", {}), ("multipitch", {})],
    "notes": [("notes", {}), ("notes", {}), ("notes", {})],
    "pattern": [("patterns", {}), ("patterns", {})],
    "keytempo": [("key", {}), ("key", {}), ("tempo", {}), ("tempo", {})],
    "align": [("align", {}), ("align", {})],
    "sources": [("sources", {}), ("sources", {}), ("sources", {"dropout": True})],
    "sonify": [("sonify", {})],
}
ALWAYS = [("events", {}), ("events", {}), ("kwargs", {}), ("segments", {})]
SHAPES = ["seq", "seq", "repeat", "aba", "fwd_rev", "threads", "threads", "threads"]


# --------------------------------------------------------------------------------------
# plan generation
# --------------------------------------------------------------------------------------
def gen_plan(rng, tier, i):
    ctx = P.gen_ctx(rng)
    groups = rng.sample(sorted(GROUPS), rng.randrange(2, 5))
    if i % 7 == 3 and "sources" not in groups:
        groups.append("sources")
    specs = {}
    counts = {}

    def add(typ, extra):
        k = counts.get(typ, 0)
        counts[typ] = k + 1
        name = "%s%d" % (typ, k)
        spec = {"type": typ, "seed": rng.getrandbits(48), "n": None, "ctx": ctx, "role": "ref" if k == 0 else "est"}
        spec.update(extra)
        specs[name] = spec

    for typ, extra in ALWAYS:
        add(typ, extra)
    for g in groups:
        for typ, extra in GROUPS[g]:
            add(typ, extra)
    chooser = ops.Chooser(rng, specs)
    names = sorted(ops.CATALOG)
    usable = [n for n in names if ops.applicable(n, ops.Chooser(random.Random(0), specs))]
    light = [n for n in usable if n not in ops.HEAVY]
    heavy = [n for n in usable if n in ops.HEAVY]
    n_ops = rng.randrange(12, 40)
    oplist = []
    # functions of the run's task groups are favoured so that calls really share objects
    fav = [n for n in light if n.split(".")[0] in _modules_for(groups)]
    for _ in range(n_ops):
        src = fav if (fav and rng.random() < 0.7) else light
        name = rng.choice(src)
        inst = ops.applicable(name, chooser)
        if not inst:
            continue
        a, k = rng.choice(inst)
        oplist.append({"fn": name, "args": a, "kwargs": k})
    for name in rng.sample(heavy, min(len(heavy), rng.choice([0, 1, 2]))):
        inst = ops.applicable(name, chooser)
        if inst:
            a, k = rng.choice(inst)
            oplist.insert(rng.randrange(len(oplist) + 1), {"fn": name, "args": a, "kwargs": k})
    shape = rng.choice(SHAPES)
    idx = list(range(len(oplist)))
    actors = {}
    if shape == "seq":
        actors["a0"] = idx
    elif shape == "repeat":
        seq = []
        for j in idx:
            seq.extend([j] * rng.choice([1, 2, 3]))
        actors["a0"] = seq
    elif shape == "aba":
        seq = []
        for j in idx[: len(idx) // 2 * 2: 2]:
            seq.extend([j, j + 1, j])
        actors["a0"] = seq or idx
    elif shape == "fwd_rev":
        actors["a0"] = idx + idx[::-1]
    else:
        k = rng.choice([2, 2, 3, 4])
        for a in range(k):
            own = [j for j in idx if rng.random() < 0.6]
            rng.shuffle(own)
            actors["a%d" % a] = own or idx[:1]
    aborts = []
    if rng.random() < 0.3:
        for _ in range(rng.choice([1, 2, 3])):
            a = rng.choice(sorted(actors))
            if actors[a]:
                aborts.append({"actor": a, "pos": rng.randrange(len(actors[a])), "event": rng.choice([1, 2, 3, 5, 8, 13, 21, 40, 80])})
    return {
        "prop": PROP, "ctx": ctx, "groups": groups, "specs": specs, "ops": oplist, "shape": shape, "actors": actors,
        "aborts": aborts, "poison": rng.choice(seams.POISONS), "switch_p": rng.choice([0.02, 0.2, 1.0]),
        "boundary_p": rng.choice([0.0, 0.5, 1.0]), "sched_seed": rng.getrandbits(48),
    }


def _modules_for(groups):
    m = {"beat": ["beat", "onset", "util"], "segment": ["segment", "util"], "chord": ["chord", "util"], "hier": ["hierarchy"],
         "melody": ["melody"], "multipitch": ["multipitch"], "notes": ["transcription", "transcription_velocity", "util"],
         "pattern": ["pattern"], "keytempo": ["key", "tempo"], "align": ["alignment"], "sources": ["separation"], "sonify": ["sonify"]}
    out = set()
    for g in groups:
        out.update(m[g])
    return out


# --------------------------------------------------------------------------------------
# execution helpers
# --------------------------------------------------------------------------------------
def build_pool(specs):
    return {name: P.build(spec) for name, spec in sorted(specs.items())}


def _wav_bytes(nchan, n):
    data = b"".join(struct.pack("<h", ((i * 37 + c * 11) % 2000) - 1000) for i in range(n) for c in range(nchan))
    hdr = b"RIFF" + struct.pack("<I", 36 + len(data)) + b"WAVEfmt " + struct.pack("<IHHIIHH", 16, 1, nchan, 8000, 8000 * 2 * nchan, 2 * nchan, 16)
    return hdr + b"data" + struct.pack("<I", len(data)) + data


def resolve(a, pool, fns):
    import numpy as np

    if isinstance(a, R):
        return pool[a.b][a.f]
    if isinstance(a, tuple) and a and isinstance(a[0], str):
        tag = a[0]
        if tag == "row0":
            return resolve(a[1], pool, fns)[0]
        if tag == "abs":
            return np.abs(resolve(a[1], pool, fns))
        if tag == "stringio":
            return io.StringIO(a[1])
        if tag == "lit":
            return a[1]
        if tag == "fn":
            return fns[a[1]]
        if tag == "wav":
            return io.BytesIO(_wav_bytes(a[1], a[2]))
    return a


def refs_of(opd):
    out = []

    def walk(a):
        if isinstance(a, R):
            out.append(a)
        elif isinstance(a, (tuple, list)):
            for x in a:
                walk(x)
        elif isinstance(a, dict):
            for x in a.values():
                walk(x)

    walk(opd["args"])
    walk(opd["kwargs"])
    return out


def call_op(opd, pool, fns):
    """-> ('ok', value) | ('exc', exception) | ('abort', None)"""
    fn = fns[opd["fn"]]
    args = [resolve(a, pool, fns) for a in opd["args"]]
    kw = opd["kwargs"]
    if isinstance(kw, tuple) and kw and kw[0] == "**":
        kwargs = resolve(kw[1], pool, fns)
    else:
        kwargs = {k: resolve(v, pool, fns) for k, v in kw.items()}
    try:
        return ("ok", fn(*args, **kwargs))
    except seams.SimAbort:
        return ("abort", None)
    except Exception as e:  # noqa: BLE001
        return ("exc", e)


def outcome_digest(out):
    if out[0] == "ok":
        return "ok:" + core.digest(out[1])
    if out[0] == "exc":
        return "exc:" + core.digest(out[1])
    return "abort"


def pool_digests(pool):
    return {(b, f): core.digest(v) for b, fields in pool.items() for f, v in fields.items()}


def lib_state():
    """Digest of every data attribute of every mir_eval module and of every public function's defaults."""
    import importlib
    import inspect
    import types

    out = {}
    for m in core.MODULES:
        mod = importlib.import_module("mir_eval." + m)
        for name, v in sorted(vars(mod).items()):
            if name.startswith("__") or isinstance(v, (types.ModuleType, type)):
                continue
            if inspect.isroutine(v):
                if inspect.isfunction(v) and getattr(v, "__module__", None) == mod.__name__:
                    out["%s.%s()" % (m, name)] = core.digest((v.__defaults__, v.__kwdefaults__))
                continue
            out["%s.%s" % (m, name)] = core.digest(v)
    out.update(process_state())
    return out


def process_state():
    """Process-global interpreter / numpy state a library call has no business changing."""
    import decimal
    import locale
    import random as _random
    import sys
    import warnings as _w
    import numpy as np

    st = {
        "<numpy.geterr>": core.digest(sorted(np.geterr().items())),
        "<numpy.printoptions>": core.digest(sorted((k, repr(v)) for k, v in np.get_printoptions().items())),
        "<numpy.random.state>": core.digest(np.random.get_state()[1]),
        "<random.state>": core.digest(_random.getstate()[1][:8]),
        "<warnings.filters>": core.digest([(f[0], repr(f[1]), getattr(f[2], "__name__", repr(f[2])), repr(f[3]), f[4]) for f in _w.filters]),
        "<sys.recursionlimit>": core.digest(sys.getrecursionlimit()),
        "<os.getcwd>": core.digest(os.getcwd()),
        "<os.environ>": core.digest(sorted(os.environ.items())),
        "<decimal.prec>": core.digest(decimal.getcontext().prec),
        "<locale>": core.digest(locale.setlocale(locale.LC_NUMERIC)),
        "<sys.path>": core.digest(list(sys.path)),
    }
    return st


def _solo(plan, j, poison):
    """Executed in a fork: op j alone on a fresh pool under `poison`."""
    seams.set_poison(poison)
    seams.WARN.install()
    fns = ops.public_functions()
    pool = build_pool(plan["specs"])
    out = call_op(plan["ops"][j], pool, fns)
    w = [(c, m) for c, m, _ in seams.WARN.take()]
    return outcome_digest(out), core.digest(w), (core.brief(out[1]) if out[0] != "abort" else ""), seams.ALLOC["fired"]


def _reexec_all(plan, used, poison):
    """Executed in a fork of the run process in its CURRENT library / interpreter state: every op alone on
    a fresh pool.  -> {j: (outcome digest, brief)}"""
    seams.set_poison(poison)
    seams.WARN.install()
    sys_trace_off()
    fns = ops.public_functions()
    out = {}
    for j in used:
        pool = build_pool(plan["specs"])
        o = call_op(plan["ops"][j], pool, fns)
        out[j] = (outcome_digest(o), core.brief(o[1]) if o[0] != "abort" else "")
    return out


def sys_trace_off():
    import sys

    sys.settrace(None)


def other_poison(p):
    i = seams.POISONS.index(p)
    return seams.POISONS[(i + 2) % len(seams.POISONS)]


# --------------------------------------------------------------------------------------
# execution
# --------------------------------------------------------------------------------------
def execute(plan, want_logs=False):
    core.import_target()
    import numpy as np

    if "walk" in plan:
        return _execute_walk(plan, want_logs)
    log = core.EventLog(keep=want_logs)
    stats = core.Stats()
    fns = ops.public_functions()
    violations = []
    seen_v = set()

    def report(cls, site, detail):
        if (cls, site) not in seen_v:
            seen_v.add((cls, site))
            violations.append(core.violation(cls, site, detail))

    used = sorted(set(j for seq in plan["actors"].values() for j in seq))
    # ---- solo references (before anything is called in this process) ---------------------
    solo = {}
    uninit = set()
    pB = other_poison(plan["poison"])
    for j in used:
        st, res = core.fork_call(_solo, (plan, j, pB), timeout=60.0)
        if st != "ok":
            raise RuntimeError("solo reference for op %d (%s) failed: %s %s" % (j, plan["ops"][j]["fn"], st, res))
        solo[j] = res
        stats.inc("solo_forks")
        if res[3]:
            # the op allocated np.empty buffers: run it alone once more under the run's own poison; the two
            # solo executions differ in nothing but heap content, so a difference is an uninitialised read
            st2, res2 = core.fork_call(_solo, (plan, j, plan["poison"]), timeout=60.0)
            stats.inc("solo_forks")
            if st2 == "ok" and res2[0] != res[0]:
                uninit.add(j)
                report("UNINIT_READ", plan["ops"][j]["fn"], "%s(%s) alone under heap poison %s -> %s %s ; alone under poison %s -> %s %s" % (
                    plan["ops"][j]["fn"], _argstr(plan["ops"][j]), pB, res[0], res[2], plan["poison"], res2[0], res2[2]))
    # ---- the run ------------------------------------------------------------------------
    seams.set_poison(plan["poison"])
    seams.WARN.install()
    pool = build_pool(plan["specs"])
    pd0 = pool_digests(pool)
    ls0 = lib_state()
    sched = random.Random(plan["sched_seed"])
    actors = plan["actors"]
    threaded = len(actors) > 1
    state = {"pos": {a: -1 for a in actors}, "evt": {a: 0 for a in actors}, "aborted": {a: False for a in actors},
             "inflight": {}, "skip_i3": set(), "reexec_left": 8, "outcomes": [], "prev_fn": None, "touched": set(), "switch_points": set(), "abort_points": set()}
    abort_at = {}
    for ab in plan["aborts"]:
        abort_at.setdefault((ab["actor"], ab["pos"]), ab["event"])
    lock_names = sorted(actors)

    def decide(me, func, line):
        state["evt"][me] += 1
        key = (me, state["pos"][me])
        if abort_at.get(key) == state["evt"][me]:
            state["aborted"][me] = True
            state["abort_points"].add((func, line))
            stats.inc("fault.abort")
            log.add("abort", me, func, line)
            return "abort"
        if threaded and sched.random() < plan["switch_p"]:
            others = [a for a in lock_names if a != me and a in baton.alive]
            if others:
                nxt = sched.choice(others)
                state["switch_points"].add((func, line))
                log.add("switch", me, func, line, nxt)
                return nxt
        return None

    def check_after(me, j, out, warns):
        opd = plan["ops"][j]
        fn = opd["fn"]
        od = outcome_digest(out)
        aborted = state["aborted"][me] or out[0] == "abort"
        # I1 pool integrity
        pd = pool_digests(pool)
        if pd != pd0:
            for key in sorted(pd0):
                if pd.get(key) != pd0[key]:
                    owner = fn if R(*key) in refs_of(opd) else None
                    if owner is None:
                        for a2, j2 in sorted(state["inflight"].items()):
                            if R(*key) in refs_of(plan["ops"][j2]):
                                owner = plan["ops"][j2]["fn"]
                                break
                    typ = plan["specs"][key[0]]["type"]
                    report("ARG_MUTATED", "%s:%s.%s" % (owner or "unknown", typ, key[1]),
                           "after %s %s(%s): caller's %s.%s changed from digest %s to %s (now %s)" % (
                               "ABORTED" if aborted else "completed", fn, _argstr(opd), key[0], key[1], pd0[key], pd[key],
                               core.brief(pool[key[0]][key[1]])))
                    # repair the caller's object from its spec so that the damage is reported once and
                    # does not cascade into every later result; ops in flight right now may already
                    # hold the damaged object, so their I3 is skipped.
                    pool[key[0]][key[1]] = P.build(plan["specs"][key[0]])[key[1]]
                    state["skip_i3"].update(state["inflight"].keys())
                    stats.inc("pool_repairs")
        # I2 library / process-global state.  A change is not a violation by itself (a correctly keyed cache
        # changes module state and no result): it is one iff it is OBSERVABLE -- every op of the plan is
        # re-executed alone, on a fresh pool, in a fork of the process as it is NOW, and compared with its
        # pristine solo reference.
        ls = lib_state()
        if ls != ls0:
            changed = [key for key in sorted(set(ls) | set(ls0)) if ls.get(key) != ls0.get(key)]
            for key in changed:
                ls0[key] = ls.get(key)
                stats.see("lib_state_changes", key)
            stats.inc("probe.library_state_changed")
            if state["reexec_left"] > 0:
                state["reexec_left"] -= 1
                st, res = core.fork_call(_reexec_all, (plan, used, pB), timeout=120.0)
                stats.inc("reexec_probes")
                observable = False
                if st == "ok":
                    for j2, (d2, b2) in res.items():
                        if j2 in uninit or d2 == solo[j2][0]:
                            continue
                        observable = True
                        f2 = plan["ops"][j2]["fn"]
                        names = ", ".join((("mir_eval." + k) if not k.startswith("<") else k) for k in changed[:3])
                        report("HISTORY_DEPENDENT", f2, "%s(%s) changed %s; after that, %s(%s) alone on fresh arguments -> %s %s ; in a pristine process -> %s %s" % (
                            fn, _argstr(opd), names, f2, _argstr(plan["ops"][j2]), d2, b2, solo[j2][0], solo[j2][2]))
                        for k in changed:
                            report("LIB_STATE_MUTATED", ("mir_eval." + k) if not k.startswith("<") else k,
                                   "%s(%s) changed %s and the change is observable: %s then returns %s instead of %s" % (
                                       fn, _argstr(opd), k, f2, b2, solo[j2][2]))
                if not observable:
                    stats.inc("probe.library_state_change_not_observable")
        # I3 result vs solo reference
        if me in state["skip_i3"]:
            state["skip_i3"].discard(me)
            stats.inc("i3_skipped_after_mutation")
        elif not aborted:
            sd, sw, sbrief = solo[j][:3]
            wd = core.digest([(c, m) for c, m, _ in warns])
            if j in uninit:
                stats.inc("i3_skipped_uninit")
            elif od != sd:
                cls = "CONCURRENT_DIFFERS" if threaded else "HISTORY_DEPENDENT"
                report(cls, fn, "%s(%s): in the run (heap poison %s, after %s) -> %s %s ; alone (poison %s) -> %s %s" % (
                    fn, _argstr(opd), plan["poison"], state["prev_fn"], od, core.brief(out[1]), pB, sd, sbrief))
            elif wd != sw:
                # observation only: warnings are not results (a library is free to warn once per process)
                stats.inc("probe.warnings_differ_from_solo")
            stats.inc("i3_checked")
            shares = any((r.b, r.f) in state["touched"] for r in refs_of(opd))
            if shares and state["prev_fn"] is not None:
                stats.see("pairs", (state["prev_fn"], fn))
        else:
            stats.inc("aborted_ops")
        for r in refs_of(opd):
            state["touched"].add((r.b, r.f))
        if out[0] == "ok":
            seams.note_returned(out[1])
            _alias_probe(out[1], stats)
        stats.inc("ops")
        stats.inc("outcome." + out[0])
        stats.see("fns", fn)
        stats.see("templates", (fn, _argstr(opd)))
        log.add("op", me, j, fn, od, len(warns))
        state["outcomes"].append((me, state["pos"][me], fn, od))
        state["prev_fn"] = fn

    def actor_body(b, me):
        for pos, j in enumerate(actors[me]):
            state["pos"][me] = pos
            state["evt"][me] = 0
            state["aborted"][me] = False
            state["inflight"][me] = j
            seams.WARN.take_for(me)
            out = call_op(plan["ops"][j], pool, fns)
            with b.untraced():
                warns = seams.WARN.take_for(me)
                state["inflight"].pop(me, None)
                check_after(me, j, out, warns)
                if threaded and sched.random() < plan["boundary_p"]:
                    others = [a for a in lock_names if a != me and a in b.alive]
                    if others:
                        nxt = sched.choice(others)
                        log.add("handover", me, nxt)
                        b.boundary(me, nxt)

    baton = seams.Baton(core.src_root() + os.sep + "mir_eval" + os.sep, decide, max_events=MAX_TRACE_EVENTS)
    seams.WARN.by_thread = True
    first = sched.choice(lock_names)
    baton.run({a: actor_body for a in actors}, first, lambda alive: sched.choice(alive))
    if baton.errors:
        raise RuntimeError("actor crashed: %r" % (baton.errors,))
    stats.inc("trace_events", baton.events)
    stats.inc("thread_switches", baton.switches)
    stats.inc("probe.poison_delivered." + plan["poison"], seams.ALLOC["fired"])
    for s in seams.ALLOC["sites"]:
        stats.see("alloc_sites", s)
    for s in state["switch_points"]:
        stats.see("switch_points", s)
    for s in state["abort_points"]:
        stats.see("abort_points", s)
    stats.inc("shape." + plan["shape"])
    stats.inc("runs.threads_%d" % len(actors))
    if threaded:
        stats.see("interleavings", log.digest())
    return {"violations": violations, "stats": stats.dump(), "log_digest": log.digest(), "n_events": log.n,
            "log_events": log.events if want_logs else None,
            # schedule-independent summary: which call returned what (used where the line-level schedule itself
            # legitimately depends on PYTHONHASHSEED through mir_eval's own set iteration)
            "aux_digest": core.digest(sorted(state["outcomes"]))}


# --------------------------------------------------------------------------------------
# systematic walks: every abort point of one call, every single-switch interleaving of two calls
# --------------------------------------------------------------------------------------
WALK_CAP = 250
WALK_CAP_HEAVY = {"separation": 8, "sonify": 24, "hierarchy": 40}
WALK_OPS = {"quick": 320, "thorough": 6000}
WALK_BYSTANDERS = 8


def gen_walk_plan(rng, tier, i):
    base = gen_plan(rng, tier, i + 10 ** 6)
    if i % 4 == 3:
        # heavy walks: every heavy template the pool allows becomes a candidate (a campaign plan holds at most two)
        chooser = ops.Chooser(rng, base["specs"])
        for name in sorted(ops.HEAVY):
            inst = ops.applicable(name, chooser) if name in ops.CATALOG else []
            for a_, k_ in inst[:1]:
                base["ops"].append({"fn": name, "args": a_, "kwargs": k_})
    light = [j for j, o in enumerate(base["ops"]) if o["fn"] not in ops.HEAVY]
    heavy = [j for j, o in enumerate(base["ops"]) if o["fn"] in ops.HEAVY]
    if len(light) < 2:
        light = list(range(len(base["ops"])))
    if heavy and i % 4 == 3:
        # one walk in four is over a numerically heavy call (sonify / hierarchy / separation), with a lower cap on
        # the number of points; its partner may be heavy too
        a = rng.choice(heavy)
        light = light + heavy
    else:
        a = rng.choice(light)
    # prefer a partner that shares a pool object with A
    ra = set((r.b, r.f) for r in refs_of(base["ops"][a]))
    sharing = [j for j in light if j != a and ra & set((r.b, r.f) for r in refs_of(base["ops"][j]))]
    same_mod = [j for j in light if j != a and base["ops"][j]["fn"].split(".")[0] == base["ops"][a]["fn"].split(".")[0]]
    b = rng.choice(sharing or same_mod or [j for j in light if j != a] or [a])
    # heavy walks sit at i % 4 == 3, always odd: their kind alternates on the next bit (with i % 2 alone no heavy call
    # was ever walked for abort points)
    kind = ["abort", "interleave"][(i // 4) % 2 if i % 4 == 3 else i % 2]
    return {"prop": PROP, "walk": {"kind": kind, "a": a, "b": b}, "specs": base["specs"], "ops": base["ops"],
            "poison": base["poison"], "ctx": base["ctx"], "groups": base["groups"], "shape": "walk", "actors": {"a0": [a], "a1": [b]},
            "aborts": [], "switch_p": 0.0, "boundary_p": 0.0, "sched_seed": 0}


def _count_events(plan, j, fns, prefix):
    n = [0]

    def decide(me, func, line):
        n[0] += 1
        return None

    pool = build_pool(_specs_for(plan, [j]))
    baton = seams.Baton(prefix, decide, max_events=10 ** 7)
    baton.run({"a0": lambda b, me: call_op(plan["ops"][j], pool, fns)}, "a0", lambda alive: alive[0])
    return n[0]


def _specs_for(plan, js):
    need = set(r.b for j in js for r in refs_of(plan["ops"][j]))
    return {k: v for k, v in plan["specs"].items() if k in need}


def _execute_walk(plan, want_logs):
    log = core.EventLog(keep=want_logs)
    stats = core.Stats()
    fns = ops.public_functions()
    violations, seen_v = [], set()
    w = plan["walk"]
    a, b = w["a"], w["b"]
    opa, opb = plan["ops"][a], plan["ops"][b]
    prefix = core.src_root() + os.sep + "mir_eval" + os.sep
    pB = other_poison(plan["poison"])

    def report(cls, site, detail, k):
        if (cls, site) not in seen_v:
            seen_v.add((cls, site))
            v = core.violation(cls, site, detail)
            v["walk_k"] = k
            violations.append(v)

    solo = {}
    for j in (a, b):
        st, res = core.fork_call(_solo, (plan, j, pB), timeout=60.0)
        if st != "ok":
            raise RuntimeError("solo reference failed: %s %s" % (st, res))
        solo[j] = res
    # bystanders: other ops of the plan (same module as A or B first), used only when a walked point leaves the
    # library / process state changed -- then each is re-executed alone in a fork of the process as it is NOW and
    # compared with its reference taken here, in the still pristine process (same rule as the campaign's I2 probe:
    # a state change is a violation iff some call's result observably depends on it)
    mods = (opa["fn"].split(".")[0], opb["fn"].split(".")[0])
    others = [j for j, o in enumerate(plan["ops"]) if j not in (a, b) and (o["fn"].split(".")[0] in mods or o["fn"] not in ops.HEAVY)]
    others.sort(key=lambda j: (plan["ops"][j]["fn"].split(".")[0] not in mods, j))
    others = others[:WALK_BYSTANDERS]
    by_ref, probes_left = {}, 6
    if others:
        st, res = core.fork_call(_reexec_all, (plan, others, pB), timeout=180.0)
        if st == "ok":
            by_ref = res
    seams.set_poison(plan["poison"])
    seams.WARN.install()
    specs = _specs_for(plan, [a, b])
    E = _count_events(plan, a, fns, prefix)
    # number of walked points per call: a fixed table by cost class (never wall time: the set of points is part
    # of the execution and must be the same on a slow and on a fast machine)
    cap = WALK_CAP if opa["fn"] not in ops.HEAVY else WALK_CAP_HEAVY.get(opa["fn"].split(".")[0], 40)
    if opb["fn"].startswith("separation.") and not opa["fn"].startswith("separation."):
        cap = min(cap, 20)
    if E > cap and w.get("only_k") is None:
        # more line events than the cap: spread the points over the whole call instead of taking the first ones
        ks = sorted(set(1 + (q * (E - 1)) // (cap - 1) for q in range(cap)))
    else:
        ks = list(range(1, E + 1))
    if w.get("only_k") is not None:
        ks = [w["only_k"]]
    ls0 = lib_state()
    seen_states = {core.digest(sorted(ls0.items()))}
    for k in ks:
        pool = build_pool(specs)
        pd0 = pool_digests(pool)
        outs = {}
        point = [None]

        def decide(me, func, line, k=k):
            if me != "a0":
                return None
            cnt[0] += 1
            if cnt[0] == k:
                point[0] = (func, line)
                return "abort" if w["kind"] == "abort" else "a1"
            return None

        cnt = [0]
        baton = seams.Baton(prefix, decide, max_events=10 ** 7)
        if w["kind"] == "abort":
            baton.run({"a0": lambda bt, me: outs.__setitem__("a", call_op(opa, pool, fns))}, "a0", lambda alive: alive[0])
            stats.inc("walk.abort_points")
            stats.see("abort_points", point[0])
        else:
            baton.run({"a0": lambda bt, me: outs.__setitem__("a", call_op(opa, pool, fns)),
                       "a1": lambda bt, me: outs.__setitem__("b", call_op(opb, pool, fns))}, "a0", lambda alive: alive[0])
            stats.inc("walk.interleavings")
            stats.see("switch_points", point[0])
        if baton.errors:
            raise RuntimeError("walk actor crashed: %r" % (baton.errors,))
        where = "%s line %s" % (point[0] or ("?", "?"))
        what = ("aborted at its line event %d (%s)" % (k, where)) if w["kind"] == "abort" else (
            "pre-empted at its line event %d (%s) while %s(%s) ran to completion on another thread" % (k, where, opb["fn"], _argstr(opb)))
        # I1: the caller's objects
        pd = pool_digests(pool)
        for key in sorted(pd0):
            if pd[key] != pd0[key]:
                typ = plan["specs"][key[0]]["type"]
                owner = opa["fn"] if R(*key) in refs_of(opa) else opb["fn"]
                report("ARG_MUTATED", "%s:%s.%s" % (owner, typ, key[1]), "%s(%s) %s: caller's %s.%s changed (now %s)" % (
                    opa["fn"], _argstr(opa), what, key[0], key[1], core.brief(pool[key[0]][key[1]])), k)
        # I3 for the overlapped calls
        if w["kind"] == "interleave":
            for tag, j in (("a", a), ("b", b)):
                if tag in outs and outcome_digest(outs[tag]) != solo[j][0]:
                    report("CONCURRENT_DIFFERS", plan["ops"][j]["fn"], "%s(%s) %s: %s(%s) -> %s %s ; alone -> %s %s" % (
                        opa["fn"], _argstr(opa), what, plan["ops"][j]["fn"], _argstr(plan["ops"][j]), outcome_digest(outs[tag]),
                        core.brief(outs[tag][1]), solo[j][0], solo[j][2]), k)
        # I2 library / process state, looked at twice: as the walked point leaves it (an aborted call cannot tidy up
        # after itself) and again after the two complete calls below
        def lib_check():
            nonlocal ls0, probes_left
            ls = lib_state()
            if ls != ls0:
                stats.inc("probe.library_state_changed")
                changed = [key for key in sorted(set(ls) | set(ls0)) if ls.get(key) != ls0.get(key)]
                for key in changed:
                    stats.see("lib_state_changes", key)
                ls0 = ls
                sk = core.digest(sorted(ls.items()))
                if by_ref and probes_left > 0 and sk not in seen_states:
                    # one probe per distinct library state of this walk (a scratch table fills up in stages)
                    seen_states.add(sk)
                    probes_left -= 1
                    st, res = core.fork_call(_reexec_all, (plan, sorted(by_ref), pB), timeout=180.0)
                    stats.inc("walk.bystander_probes")
                    seams.set_poison(plan["poison"])
                    if st == "ok":
                        names = ", ".join((("mir_eval." + c) if not c.startswith("<") else c) for c in changed[:3])
                        for j2 in sorted(res):
                            if res[j2][0] != by_ref[j2][0]:
                                f2 = plan["ops"][j2]["fn"]
                                report("HISTORY_DEPENDENT", f2, "%s(%s) %s changed %s; after that, %s(%s) alone on fresh arguments -> %s %s ; in a pristine process -> %s %s" % (
                                    opa["fn"], _argstr(opa), what, names, f2, _argstr(plan["ops"][j2]), res[j2][0], res[j2][1], by_ref[j2][0], by_ref[j2][1]), k)

        lib_check()
        # what the next calls inherit: B, then A, complete, on fresh arguments
        fresh = build_pool(specs)
        for j in (b, a):
            o = call_op(plan["ops"][j], fresh, fns)
            if outcome_digest(o) != solo[j][0]:
                report("HISTORY_DEPENDENT", plan["ops"][j]["fn"], "after %s(%s) was %s, a fresh %s(%s) -> %s %s ; in a pristine process -> %s %s" % (
                    opa["fn"], _argstr(opa), what, plan["ops"][j]["fn"], _argstr(plan["ops"][j]), outcome_digest(o), core.brief(o[1]),
                    solo[j][0], solo[j][2]), k)
            stats.inc("ops")
        seams.WARN.take()
        lib_check()
        log.add("walk", w["kind"], k, point[0], [outcome_digest(outs[t]) for t in sorted(outs)])
        stats.inc("i3_checked", 2)
    stats.inc("walk.ops")
    stats.see("fns", opa["fn"])
    stats.see("walk_fns", (w["kind"], opa["fn"]))
    for v in violations:
        concrete = copy.deepcopy(plan)
        concrete["walk"] = dict(w, only_k=v.pop("walk_k"))
        v["plan"] = concrete
    return {"violations": violations, "stats": stats.dump(), "log_digest": log.digest(), "n_events": log.n,
            "log_events": log.events if want_logs else None}


class _WalkEngine(object):
    PROP = PROP
    RUN_TIMEOUT = 300.0
    CAMPAIGN_WALL = CAMPAIGN_WALL

    @staticmethod
    def gen_plan(rng, tier, i):
        return gen_walk_plan(rng, tier, i)

    @staticmethod
    def execute(plan, want_logs=False):
        return execute(plan, want_logs)

    @staticmethod
    def describe(plan, res):
        w = plan["walk"]
        return {"walk": w["kind"], "a": "%s(%s)" % (plan["ops"][w["a"]]["fn"], _argstr(plan["ops"][w["a"]])[:100]),
                "b": "%s(%s)" % (plan["ops"][w["b"]]["fn"], _argstr(plan["ops"][w["b"]])[:100]), "log_digest": res["log_digest"]}


def extra_phase(tier, seed, agg):
    n = int(os.environ.get("VERIF_WALK_OPS", "0")) or WALK_OPS[tier]
    sub = core.run_campaign(_WalkEngine, tier, seed + 104729, n)
    agg["stats"].merge(sub["stats"])
    agg["harness"].extend(sub["harness"])
    for rec in sub["violations"]:
        for v in rec["violations"]:
            p = v.pop("plan")
            p["run"] = rec["run"]
            p["run_seed"] = rec["plan"].get("run_seed")
            agg["violations"].append({"run": rec["run"], "plan": p, "violations": [v], "log": rec["log"]})
    return {"walk_ops": n, "walk_events": sum(r["events"] for r in sub["runs"]), "walk_samples": sub["samples"][:2]}


def _argstr(opd):
    kw = opd["kwargs"]
    if isinstance(kw, tuple):
        ks = "**" + repr(kw[1])
    else:
        ks = ", ".join("%s=%r" % (k, v) for k, v in sorted(kw.items()))
    a = ", ".join(repr(x) if not (isinstance(x, tuple) and x and x[0] == "stringio") else "StringIO" for x in opd["args"])
    return (a + (", " if a and ks else "") + ks)[:200]


def _alias_probe(value, stats):
    """Observation only: does a returned array share memory with a library table?"""
    import numpy as np
    import mir_eval.chord as ch

    vals = value if isinstance(value, (tuple, list)) else [value]
    for v in vals:
        if isinstance(v, np.ndarray):
            for t in (ch.NO_CHORD_ENCODED[1], ch.X_CHORD_ENCODED[1]):
                if np.shares_memory(v, t):
                    stats.inc("probe.returned_library_table_by_reference")


# --------------------------------------------------------------------------------------
# minimisation
# --------------------------------------------------------------------------------------
def size(plan):
    if "walk" in plan:
        return 5 + (0 if plan["walk"].get("only_k") is not None else 1000) + len(plan["specs"]) + sum(
            (sp.get("n") if sp.get("n") is not None else 50) for sp in plan["specs"].values()) / 10.0
    s = sum(len(v) for v in plan["actors"].values()) * 10
    s += 25 * (len(plan["actors"]) - 1) + 8 * len(plan["aborts"])
    s += sum((sp.get("n") if sp.get("n") is not None else 50) for sp in plan["specs"].values()) / 10.0
    s += 0 if plan["poison"] == "zero" else 1
    s += len(plan["specs"])
    return s


def shrink(plan, test, budget):
    plan = copy.deepcopy(plan)
    if "walk" in plan:
        w = plan["walk"]
        used = sorted(set([w["a"], w["b"]]))
        usedb = set(r.b for j in used for r in refs_of(plan["ops"][j]))
        cand = copy.deepcopy(plan)
        cand["specs"] = {k: v for k, v in plan["specs"].items() if k in usedb}
        if len(cand["specs"]) < len(plan["specs"]) and test(cand):
            plan = cand
        for name in sorted(plan["specs"]):
            for n in (1, 2, 3, 5, 8):
                cur = plan["specs"][name].get("n")
                if cur is not None and cur <= n:
                    break
                cand = copy.deepcopy(plan)
                cand["specs"][name]["n"] = n
                # the event index of the failing point moves when the inputs shrink: search all points again
                cand["walk"] = dict(w, only_k=None)
                if test(cand):
                    st, res = core.fork_call(execute, (cand, False))
                    if st == "ok" and res["violations"] and "plan" in res["violations"][0]:
                        plan = res["violations"][0]["plan"]
                        plan["run"], plan["run_seed"] = cand.get("run"), cand.get("run_seed")
                        break
        return plan
    # 1. threads -> one actor (sequential concatenation)
    if len(plan["actors"]) > 1:
        cand = copy.deepcopy(plan)
        seq = []
        for a in sorted(cand["actors"]):
            seq.extend(cand["actors"][a])
        cand["actors"] = {"a0": seq}
        cand["aborts"] = []
        if test(cand):
            plan = cand
    # 2. drop aborts
    if plan["aborts"]:
        cand = dict(copy.deepcopy(plan), aborts=[])
        if test(cand):
            plan = cand
        else:
            for k in range(len(plan["aborts"])):
                cand = copy.deepcopy(plan)
                del cand["aborts"][k]
                if cand["aborts"] != plan["aborts"] and test(cand):
                    plan = cand
                    break
    # 3. drop op executions per actor (abort positions are re-mapped to the op they belonged to)
    for a in sorted(plan["actors"]):
        seq = list(enumerate(plan["actors"][a]))

        def t(items, a=a):
            cand = copy.deepcopy(plan)
            cand["actors"][a] = [j for _, j in items]
            keep = {pos: k for k, (pos, _) in enumerate(items)}
            cand["aborts"] = [dict(ab, pos=keep[ab["pos"]]) if ab["actor"] == a else ab
                              for ab in plan["aborts"] if ab["actor"] != a or ab["pos"] in keep]
            return test(cand)

        kept = core.ddmin_list(seq, t, budget)
        keep = {pos: k for k, (pos, _) in enumerate(kept)}
        plan["aborts"] = [dict(ab, pos=keep[ab["pos"]]) if ab["actor"] == a else ab
                          for ab in plan["aborts"] if ab["actor"] != a or ab["pos"] in keep]
        plan["actors"][a] = [j for _, j in kept]
    # drop empty actors
    if len(plan["actors"]) > 1:
        cand = copy.deepcopy(plan)
        cand["actors"] = {a: s for a, s in cand["actors"].items() if s} or {"a0": []}
        if len(cand["actors"]) < len(plan["actors"]) and test(cand):
            plan = cand
    # 4. drop bundles no remaining op references
    usedops = set(j for s in plan["actors"].values() for j in s)
    usedb = set(r.b for j in usedops for r in refs_of(plan["ops"][j]))
    cand = copy.deepcopy(plan)
    cand["specs"] = {k: v for k, v in plan["specs"].items() if k in usedb}
    if len(cand["specs"]) < len(plan["specs"]) and test(cand):
        plan = cand
    # 5. shrink bundles
    for name in sorted(plan["specs"]):
        for n in (0, 1, 2, 3, 5, 8):
            cur = plan["specs"][name].get("n")
            if cur is not None and cur <= n:
                break
            cand = copy.deepcopy(plan)
            cand["specs"][name]["n"] = n
            if test(cand):
                plan = cand
                break
    # 6. benign poison
    if plan["poison"] != "zero":
        cand = dict(copy.deepcopy(plan), poison="zero")
        if test(cand):
            plan = cand
    # 7. compact the op table (cosmetic: no execution needed, indices are only names)
    used = sorted(set(j for s in plan["actors"].values() for j in s))
    remap = {j: k for k, j in enumerate(used)}
    plan["ops"] = [plan["ops"][j] for j in used]
    plan["actors"] = {a: [remap[j] for j in s] for a, s in plan["actors"].items()}
    return plan


# --------------------------------------------------------------------------------------
# reporting
# --------------------------------------------------------------------------------------
def describe(plan, res):
    if "walk" in plan:
        return _WalkEngine.describe(plan, res)
    return {
        "shape": plan["shape"], "groups": plan["groups"], "poison": plan["poison"], "switch_p": plan["switch_p"],
        "pool": {k: (v["type"], v.get("role")) for k, v in plan["specs"].items()},
        "actors": {a: ["%s(%s)" % (plan["ops"][j]["fn"], _argstr(plan["ops"][j])[:80]) for j in seq][:12]
                   for a, seq in plan["actors"].items()},
        "aborts": plan["aborts"], "log_digest": res["log_digest"],
    }


def coverage(agg, tier, n_runs, wall, extra):
    st = agg["stats"]
    c = st.count
    pub = sorted(ops.public_functions())
    executed = st.distinct.get("fns", set())
    cov = _coverage(agg, tier, n_runs, wall, extra)
    if extra:
        cov.update(extra)
    return cov


def _coverage(agg, tier, n_runs, wall, extra):
    st = agg["stats"]
    c = st.count
    pub = sorted(ops.public_functions())
    executed = st.distinct.get("fns", set())
    return {
        "evaluations": c.get("ops", 0),
        "distinct_nontrivial": len(st.distinct.get("pairs", ())),
        "rule": RULE,
        "samples": agg["samples"][:3],
        "ops_per_hour": int(c.get("ops", 0) / max(wall, 1e-6) * 3600),
        "i3_checked": c.get("i3_checked", 0),
        "solo_reference_forks": c.get("solo_forks", 0),
        "public_functions": len(pub),
        "public_functions_executed": len(executed & set(pub)),
        "public_functions_without_template": ops.uncovered(),
        "public_functions_never_executed": sorted(set(pub) - executed),
        "distinct_templates_executed": len(st.distinct.get("templates", ())),
        "outcomes": {k.split(".", 1)[1]: v for k, v in c.items() if k.startswith("outcome.")},
        "history_shapes": {k.split(".", 1)[1]: v for k, v in c.items() if k.startswith("shape.")},
        "runs_by_threads": {k.split(".", 1)[1]: v for k, v in c.items() if k.startswith("runs.")},
        "trace_events": c.get("trace_events", 0),
        "thread_switches": c.get("thread_switches", 0),
        "faults_fired": {"abort": c.get("fault.abort", 0), "aborted_ops": c.get("aborted_ops", 0),
                         "poisoned_allocations": {k.split(".")[-1]: v for k, v in c.items() if k.startswith("probe.poison_delivered.")}},
        "probes": {k.split(".", 1)[1]: v for k, v in sorted(c.items()) if k.startswith("probe.")},
        "distinct_preemption_points": len(st.distinct.get("switch_points", ())),
        "distinct_abort_points": len(st.distinct.get("abort_points", ())),
        "distinct_alloc_sites_poisoned": len(st.distinct.get("alloc_sites", ())),
        "systematic_walks": dict({k.split(".", 1)[1]: v for k, v in sorted(c.items()) if k.startswith("walk.")},
                                 distinct_walked_functions=len(st.distinct.get("walk_fns", ())),
                                 note="per walked call: EVERY line event (capped at %d) is used once as the abort point / as the point where "
                                      "another call runs to completion on a second thread; afterwards both calls run again on fresh arguments" % WALK_CAP),
        "distinct_interleavings": len(st.distinct.get("interleavings", ())),
        "distinct_interleavings_measure": "distinct event-log digests of threaded runs (every switch decision (actor, function, line)->actor is logged)",
        "components": {
            "real": ["all of mir_eval (tree under test), numpy, scipy", "real threads (one runnable at a time)"],
            "stub": ["thread scheduler (baton + sys.settrace)", "heap content of numpy.empty/empty_like for mir_eval callers",
                     "abort delivery (SimAbort at a chosen line event)", "warnings.showwarning recorder", "pool generators (callers)"],
        },
    }
