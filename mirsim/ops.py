"""Op catalogue for the C15 campaign: one or more argument templates for every public function
of the task modules, util, sonify, separation and io (DESIGN.md appendix B).

A template is `fn(c) -> (args, kwargs)` where `c` is a Chooser over the run's pool; arguments
are either literals or `R(bundle, field)` references to *shared* pool objects (resolved at
execution time to the very same object for every op that names it).
"""

import inspect


class R(object):
    """Reference to a field of a pool bundle."""
    __slots__ = ("b", "f")

    def __init__(self, b, f):
        self.b, self.f = b, f

    def __repr__(self):
        return "R(%s.%s)" % (self.b, self.f)

    def __eq__(self, o):
        return isinstance(o, R) and (self.b, self.f) == (o.b, o.f)

    def __hash__(self):
        return hash((self.b, self.f))


class NA(Exception):
    """Template not applicable to this pool."""


class Chooser(object):
    def __init__(self, rng, pool_specs):
        self.rng = rng
        self.by_type = {}
        for name, spec in pool_specs.items():
            self.by_type.setdefault(spec["type"], []).append(name)
        for v in self.by_type.values():
            v.sort()
        self.specs = pool_specs

    def b(self, typ, role=None):
        names = self.by_type.get(typ) or []
        if role:
            rn = [n for n in names if self.specs[n].get("role") == role]
            names = rn or names
        if not names:
            raise NA(typ)
        return self.rng.choice(names)

    def pair(self, typ):
        return self.b(typ, "ref"), self.b(typ, "est")

    def ch(self, seq):
        return self.rng.choice(seq)

    def maybe(self, p, kw):
        return kw if self.rng.random() < p else {}


CATALOG = {}
HEAVY = set()


def op(name, heavy=False):
    def deco(fn):
        CATALOG.setdefault(name, []).append(fn)
        if heavy:
            HEAVY.add(name)
        return fn
    return deco


def _ev_pair(c):
    r, e = c.pair("events")
    return [R(r, "ev"), R(e, "ev")]


# ---- beat / onset / alignment / match_events ----------------------------------------------
for _fn, _kws in [("beat.f_measure", [{}, {"f_measure_threshold": 0.1}]), ("beat.cemgil", [{}, {"cemgil_sigma": 0.08}]),
                  ("beat.goto", [{}, {"goto_threshold": 0.2}]), ("beat.p_score", [{}, {"p_score_threshold": 0.3}]),
                  ("beat.continuity", [{}, {"continuity_phase_threshold": 0.3}]),
                  ("beat.information_gain", [{}, {"bins": 21}]), ("beat.validate", [{}]),
                  ("beat.evaluate", [{}, {"f_measure_threshold": 0.1, "bins": 11}, {"unused": 3}]),
                  ("onset.f_measure", [{}, {"window": 0.1}]), ("onset.validate", [{}]),
                  ("onset.evaluate", [{}, {"window": 0.02}])]:
    def _mk(kws):
        def t(c):
            return _ev_pair(c), dict(c.ch(kws))
        return t
    op(_fn)(_mk(_kws))


@op("beat.trim_beats")
def _(c):
    return [R(c.b("events"), "ev")], c.ch([{}, {"min_beat_time": 2.0}])


@op("util.match_events")
def _(c):
    return _ev_pair(c) + [c.ch([0.05, 0.5, 0.0])], {}


@op("util.validate_events")
def _(c):
    return [R(c.b("events"), "ev")], c.ch([{}, {"max_time": 1e6}])


@op("util.adjust_events")
def _(c):
    b = c.b("events")
    kw = {"t_min": c.ch([0.0, None, 5.0, 100.0, -1.0]), "t_max": c.ch([None, 10.0, 6.5, 1000.0])}
    if c.rng.random() < 0.7:
        kw["labels"] = R(b, "labels")
    return [R(b, "ev")], kw


@op("util.generate_labels")
def _(c):
    return [R(c.b("events"), "ev")], c.ch([{}, {"prefix": "seg"}])


@op("util.boundaries_to_intervals")
def _(c):
    return [R(c.b("align"), "ts")], {}


def _al_pair(c):
    r, e = c.pair("align")
    return [R(r, "ts"), R(e, "ts")]


for _fn, _kws in [("alignment.absolute_error", [{}]), ("alignment.evaluate", [{}, {"window": 0.5}]),
                  ("alignment.karaoke_perceptual_metric", [{}]), ("alignment.percentage_correct", [{}, {"window": 0.1}]),
                  ("alignment.percentage_correct_segments", [{}, {"duration": 40.0}]), ("alignment.validate", [{}])]:
    def _mk(kws):
        def t(c):
            return _al_pair(c), dict(c.ch(kws))
        return t
    op(_fn)(_mk(_kws))


# ---- segment -------------------------------------------------------------------------------
def _seg4(c, typ="segments"):
    r, e = c.pair(typ)
    return [R(r, "iv"), R(r, "labels"), R(e, "iv"), R(e, "labels")]


def _seg2(c, typ="segments"):
    r, e = c.pair(typ)
    return [R(r, "iv"), R(e, "iv")]


for _fn, _kws in [("segment.pairwise", [{}, {"frame_size": 0.5, "beta": 2.0}, {"frame_size": 5.0}, {"frame_size": 12.0}]),
                  ("segment.rand_index", [{}, {"frame_size": 0.5}, {"frame_size": 5.0}]),
                  ("segment.ari", [{}, {"frame_size": 0.25}, {"frame_size": 5.0}]), ("segment.mutual_information", [{}, {"frame_size": 0.5}, {"frame_size": 7.0}]),
                  ("segment.nce", [{}, {"marginal": True}, {"frame_size": 0.5}, {"frame_size": 5.0}]), ("segment.vmeasure", [{}, {"beta": 0.5}, {"frame_size": 6.0}]),
                  ("segment.validate_structure", [{}]),
                  ("segment.evaluate", [{}, {"frame_size": 0.5, "window": 1.0}, {"trim": True}, {"frame_size": 5.0}, {"frame_size": 11.0}]),
                  ("util.merge_labeled_intervals", [{}])]:
    def _mk(kws):
        def t(c):
            return _seg4(c), dict(c.ch(kws))
        return t
    op(_fn)(_mk(_kws))

for _fn, _kws in [("segment.detection", [{}, {"window": 3.0, "trim": True}, {"beta": 2.0}]),
                  ("segment.deviation", [{}, {"trim": True}])]:
    def _mk(kws):
        def t(c):
            return _seg2(c), dict(c.ch(kws))
        return t
    op(_fn)(_mk(_kws))


@op("segment.validate_boundary")
def _(c):
    return _seg2(c) + [c.ch([True, False])], {}


# ---- util interval helpers ------------------------------------------------------------------
def _anyiv(c):
    typ = c.ch([t for t in ("segments", "chords") if c.by_type.get(t)] or ["segments"])
    return c.b(typ)


@op("util.adjust_intervals")
def _(c):
    b = _anyiv(c)
    kw = {"t_min": c.ch([0.0, None, 3.0, 1000.0, 0.5]), "t_max": c.ch([None, 5.0, 10.0, 20.0, 30.5, 12.345, 1000.0])}
    if c.rng.random() < 0.75:
        kw["labels"] = R(b, "labels")
    if c.rng.random() < 0.2:
        kw["start_label"] = "S"
        kw["end_label"] = "E"
    return [R(b, "iv")], kw


@op("util.intervals_to_samples")
def _(c):
    b = _anyiv(c)
    return [R(b, "iv"), R(b, "labels")], c.ch([{}, {"offset": 0.05, "sample_size": 0.5}, {"fill_value": "none"}])


@op("util.interpolate_intervals")
def _(c):
    b = _anyiv(c)
    return [R(b, "iv"), R(b, "labels"), R(c.b("events"), "ev")], c.ch([{}, {"fill_value": "N"}])


@op("util.sort_labeled_intervals")
def _(c):
    b = _anyiv(c)
    return ([R(b, "iv"), R(b, "labels")] if c.rng.random() < 0.7 else [R(b, "iv")]), {}


@op("util.intervals_to_boundaries")
def _(c):
    return [R(_anyiv(c), "iv")], c.ch([{}, {"q": 2}])


@op("util.intervals_to_durations")
def _(c):
    return [R(_anyiv(c), "iv")], {}


@op("util.validate_intervals")
def _(c):
    return [R(_anyiv(c), "iv")], {}


@op("util.index_labels")
def _(c):
    return [R(_anyiv(c), "labels")], c.ch([{}, {"case_sensitive": True}])


@op("util.intersect_files")
def _(c):
    return [["/a/b/abc.lab", "/c/d/123.lab", "/e/f/xyz.lab"], ["/g/h/xyz.npy", "/i/j/123.txt", "/k/l/456.lab"]], {}


@op("util.f_measure")
def _(c):
    return [c.ch([0.0, 0.5, 1.0]), c.ch([0.0, 0.25, 1.0])], c.ch([{}, {"beta": 2.0}])


@op("util.hz_to_midi")
def _(c):
    return [R(c.b("notes"), "pitch")], {}


@op("util.midi_to_hz")
def _(c):
    return [R(c.b("notes"), "vel")], {}


@op("util.validate_frequencies")
def _(c):
    return [R(c.b("notes"), "pitch"), 5000.0, 20.0], c.ch([{}, {"allow_negatives": True}])


@op("util.has_kwargs")
def _(c):
    return [("fn", c.ch(["beat.evaluate", "beat.f_measure"]))], {}


@op("util.filter_kwargs")
def _(c):
    r, e = c.pair("events")
    return [("fn", "onset.f_measure"), R(r, "ev"), R(e, "ev")], {"window": 0.1, "bogus": 1}


@op("util.filter_kwargs")
def _(c):
    r, e = c.pair("events")
    return [("fn", "beat.evaluate"), R(r, "ev"), R(e, "ev")], ("**", R(c.b("kwargs"), "kw"))


@op("util.deprecated")
def _(c):
    return [], {"version": "0.8", "version_removed": "0.9"}


# ---- chord ----------------------------------------------------------------------------------
for _fn in ["chord.thirds", "chord.thirds_inv", "chord.triads", "chord.triads_inv", "chord.tetrads", "chord.tetrads_inv",
            "chord.root", "chord.mirex", "chord.majmin", "chord.majmin_inv", "chord.sevenths", "chord.sevenths_inv",
            "chord.validate"]:
    def _mk():
        def t(c):
            r, e = c.pair("chordlabels")
            return [R(r, "labels"), R(e, "labels")], {}
        return t
    op(_fn)(_mk())

for _fn in ["chord.directional_hamming_distance", "chord.overseg", "chord.underseg", "chord.seg"]:
    def _mk():
        def t(c):
            return _seg2(c, "chords"), {}
        return t
    op(_fn)(_mk())


@op("chord.evaluate")
def _(c):
    return _seg4(c, "chords"), c.ch([{}, {"unused": 1}])


@op("chord.merge_chord_intervals")
def _(c):
    b = c.b("chords")
    return [R(b, "iv"), R(b, "labels")], {}


@op("chord.weighted_accuracy")
def _(c):
    b = c.b("chordlabels")
    return [R(b, "comparisons"), R(b, "weights")], {}


@op("chord.encode_many")
def _(c):
    return [R(c.b("chordlabels"), "labels")], c.ch([{}, {"reduce_extended_chords": True}])


@op("chord.encode")
def _(c):
    from .pool import CHORD_LABELS
    return [c.ch(CHORD_LABELS)], c.ch([{}, {"reduce_extended_chords": True}, {"strict_bass_intervals": True}])


@op("chord.split")
def _(c):
    from .pool import CHORD_LABELS
    return [c.ch(CHORD_LABELS)], c.ch([{}, {"reduce_extended_chords": True}])


@op("chord.validate_chord_label")
def _(c):
    from .pool import CHORD_LABELS
    return [c.ch(CHORD_LABELS)], {}


@op("chord.join")
def _(c):
    from .pool import PITCH_CLASSES, QUALITIES
    kw = {}
    if c.rng.random() < 0.6:
        kw["quality"] = c.ch(QUALITIES)
    if c.rng.random() < 0.5:
        kw["extensions"] = R(c.b("chordlabels"), "ext")
    if c.rng.random() < 0.4:
        kw["bass"] = c.ch(["3", "b7", "5"])
    return [c.ch(PITCH_CLASSES)], kw


@op("chord.pitch_class_to_semitone")
def _(c):
    from .pool import PITCH_CLASSES
    return [c.ch(PITCH_CLASSES)], {}


@op("chord.scale_degree_to_semitone")
def _(c):
    from .pool import SCALE_DEGREES
    return [c.ch([s for s in SCALE_DEGREES if not s.startswith("*")])], {}


@op("chord.scale_degree_to_bitmap")
def _(c):
    from .pool import SCALE_DEGREES
    return [c.ch(SCALE_DEGREES)], c.ch([{}, {"modulo": True}, {"modulo": True, "length": 24}])


@op("chord.quality_to_bitmap")
def _(c):
    from .pool import QUALITIES
    return [c.ch(QUALITIES)], {}


@op("chord.reduce_extended_quality")
def _(c):
    from .pool import QUALITIES
    return [c.ch(QUALITIES)], {}


@op("chord.rotate_bitmap_to_root")
def _(c):
    b = c.b("chordlabels")
    return [("row0", R(b, "bitmaps")), c.ch([0, 3, 7, 11])], {}


@op("chord.rotate_bitmaps_to_roots")
def _(c):
    b = c.b("chordlabels")
    return [R(b, "bitmaps"), R(b, "roots")], {}


# ---- hierarchy ------------------------------------------------------------------------------
@op("hierarchy.tmeasure", heavy=True)
def _(c):
    r, e = c.pair("hier")
    return [R(r, "ivs"), R(e, "ivs")], c.ch([{"frame_size": 0.5}, {"frame_size": 1.0, "transitive": True},
                                              {"frame_size": 0.5, "window": 5.0}])


@op("hierarchy.lmeasure", heavy=True)
def _(c):
    r, e = c.pair("hier")
    return [R(r, "ivs"), R(r, "labs"), R(e, "ivs"), R(e, "labs")], c.ch([{"frame_size": 0.5}, {"frame_size": 1.0, "beta": 2.0}])


@op("hierarchy.evaluate", heavy=True)
def _(c):
    r, e = c.pair("hier")
    return [R(r, "ivs"), R(r, "labs"), R(e, "ivs"), R(e, "labs")], c.ch([{"frame_size": 0.5}, {"frame_size": 1.0, "window": 5.0}])


@op("hierarchy.validate_hier_intervals")
def _(c):
    return [R(c.b("hier"), "ivs")], {}


# ---- key / tempo ----------------------------------------------------------------------------
for _fn in ["key.evaluate", "key.validate", "key.weighted_score"]:
    def _mk():
        def t(c):
            r, e = c.pair("key")
            return [R(r, "key"), R(e, "key")], {}
        return t
    op(_fn)(_mk())


@op("key.validate_key")
def _(c):
    return [R(c.b("key"), "key")], {}


@op("key.split_key_string")
def _(c):
    return [R(c.b("key"), "key")], {}


for _fn, _kws in [("tempo.detection", [{}, {"tol": 0.2}]), ("tempo.evaluate", [{}, {"tol": 0.04}]), ("tempo.validate", [{}])]:
    def _mk(kws):
        def t(c):
            r, e = c.pair("tempo")
            return [R(r, "tempi"), R(r, "weight"), R(e, "tempi")], dict(c.ch(kws))
        return t
    op(_fn)(_mk(_kws))


@op("tempo.validate_tempi")
def _(c):
    return [R(c.b("tempo"), "tempi")], c.ch([{}, {"reference": False}])


# ---- melody ---------------------------------------------------------------------------------
def _mel4(c):
    r, e = c.pair("melody")
    return r, e, [R(r, "time"), R(r, "freq"), R(e, "time"), R(e, "freq")]


@op("melody.evaluate")
def _(c):
    r, e, a = _mel4(c)
    kw = {}
    if c.rng.random() < 0.5:
        kw["est_voicing"] = R(e, "voicing")
    if c.rng.random() < 0.4:
        kw["ref_reward"] = R(r, "reward")
    if c.rng.random() < 0.3:
        kw["cent_tolerance"] = 80
    if c.rng.random() < 0.2:
        kw["hop"] = 0.015
    return a, kw


@op("melody.to_cent_voicing")
def _(c):
    r, e, a = _mel4(c)
    kw = {}
    if c.rng.random() < 0.5:
        kw["est_voicing"] = R(e, "voicing")
    if c.rng.random() < 0.4:
        kw["ref_reward"] = R(r, "reward")
    if c.rng.random() < 0.3:
        kw["hop"] = c.ch([0.01, 0.02])
    if c.rng.random() < 0.2:
        kw["kind"] = "nearest"
    return a, kw


@op("melody.freq_to_voicing")
def _(c):
    b = c.b("melody")
    return [R(b, "freq")], ({"voicing": R(b, "voicing")} if c.rng.random() < 0.6 else {})


@op("melody.hz2cents")
def _(c):
    return [R(c.b("melody"), "freq")], c.ch([{}, {"base_frequency": 440.0}])


@op("melody.constant_hop_timebase")
def _(c):
    return [c.ch([0.01, 0.1, 0.25]), c.ch([1.0, 0.5, 0.0])], {}


@op("melody.resample_melody_series")
def _(c):
    r, e = c.pair("melody")
    return [R(r, "time"), ("abs", R(r, "freq")), R(r, "voicing"), R(e, "time")], c.ch([{}, {"kind": "nearest"}])


for _fn, _kws in [("melody.raw_pitch_accuracy", [{}, {"cent_tolerance": 80}]), ("melody.raw_chroma_accuracy", [{}, {"cent_tolerance": 80}]),
                  ("melody.overall_accuracy", [{}, {"cent_tolerance": 80}]), ("melody.validate", [{}])]:
    def _mk(kws):
        def t(c):
            r, e = c.pair("melody")
            return [R(r, "fv"), R(r, "cent"), R(e, "fv"), R(e, "cent")], dict(c.ch(kws))
        return t
    op(_fn)(_mk(_kws))

for _fn in ["melody.voicing_false_alarm", "melody.voicing_measures", "melody.voicing_recall", "melody.validate_voicing"]:
    def _mk():
        def t(c):
            r, e = c.pair("melody")
            return [R(r, "fv"), R(e, "fv")], {}
        return t
    op(_fn)(_mk())


# ---- multipitch ------------------------------------------------------------------------------
def _mp4(c):
    r, e = c.pair("multipitch")
    return [R(r, "time"), R(r, "freqs"), R(e, "time"), R(e, "freqs")]


for _fn, _kws in [("multipitch.evaluate", [{}, {"window": 1.0}]), ("multipitch.metrics", [{}, {"window": 0.25}]),
                  ("multipitch.validate", [{}])]:
    def _mk(kws):
        def t(c):
            return _mp4(c), dict(c.ch(kws))
        return t
    op(_fn)(_mk(_kws))


@op("multipitch.resample_multipitch")
def _(c):
    r, e = c.pair("multipitch")
    return [R(r, "time"), R(r, "freqs"), R(e, "time")], {}


@op("multipitch.frequencies_to_midi")
def _(c):
    return [R(c.b("multipitch"), "freqs")], c.ch([{}, {"ref_frequency": 442.0}])


@op("multipitch.midi_to_chroma")
def _(c):
    return [R(c.b("multipitch"), "freqs")], {}


@op("multipitch.compute_num_freqs")
def _(c):
    return [R(c.b("multipitch"), "freqs")], {}


@op("multipitch.compute_num_true_positives")
def _(c):
    b = c.b("multipitch")
    return [R(b, "freqs"), R(b, "freqs")], c.ch([{}, {"window": 20.0}, {"chroma": True}])


for _fn in ["multipitch.compute_accuracy", "multipitch.compute_err_score"]:
    def _mk():
        def t(c):
            b = c.b("multipitch")
            return [R(b, "tp"), R(b, "nref"), R(b, "nest")], {}
        return t
    op(_fn)(_mk())


# ---- transcription ---------------------------------------------------------------------------
def _n4(c):
    r, e = c.pair("notes")
    return [R(r, "iv"), R(r, "pitch"), R(e, "iv"), R(e, "pitch")]


def _n6(c):
    r, e = c.pair("notes")
    return [R(r, "iv"), R(r, "pitch"), R(r, "vel"), R(e, "iv"), R(e, "pitch"), R(e, "vel")]


def _n2(c):
    r, e = c.pair("notes")
    return [R(r, "iv"), R(e, "iv")]


for _fn, _kws in [("transcription.evaluate", [{}, {"onset_tolerance": 0.1, "strict": True}]),
                  ("transcription.match_notes", [{}, {"offset_ratio": None}, {"pitch_tolerance": 100.0}]),
                  ("transcription.precision_recall_f1_overlap", [{}, {"offset_ratio": None}, {"beta": 2.0}]),
                  ("transcription.validate", [{}])]:
    def _mk(kws):
        def t(c):
            return _n4(c), dict(c.ch(kws))
        return t
    op(_fn)(_mk(_kws))

for _fn, _kws in [("transcription.match_note_offsets", [{}, {"offset_ratio": 0.5, "strict": True}]),
                  ("transcription.match_note_onsets", [{}, {"onset_tolerance": 0.2}]),
                  ("transcription.offset_precision_recall_f1", [{}, {"offset_min_tolerance": 0.1}]),
                  ("transcription.onset_precision_recall_f1", [{}, {"beta": 0.5}]),
                  ("transcription.validate_intervals", [{}])]:
    def _mk(kws):
        def t(c):
            return _n2(c), dict(c.ch(kws))
        return t
    op(_fn)(_mk(_kws))


@op("transcription.average_overlap_ratio")
def _(c):
    return _n2(c) + [c.ch([[], [(0, 0)], [(0, 0), (1, 1)]])], {}


for _fn, _kws in [("transcription_velocity.evaluate", [{}, {"velocity_tolerance": 0.3}]),
                  ("transcription_velocity.match_notes", [{}, {"offset_ratio": None}]),
                  ("transcription_velocity.precision_recall_f1_overlap", [{}, {"strict": True}]),
                  ("transcription_velocity.validate", [{}])]:
    def _mk(kws):
        def t(c):
            return _n6(c), dict(c.ch(kws))
        return t
    op(_fn)(_mk(_kws))


# ---- pattern ---------------------------------------------------------------------------------
for _fn, _kws in [("pattern.establishment_FPR", [{}, {"similarity_metric": "cardinality_score"}]),
                  ("pattern.evaluate", [{}, {"n": 2}]), ("pattern.first_n_target_proportion_R", [{}, {"n": 1}]),
                  ("pattern.first_n_three_layer_P", [{}, {"n": 2}]), ("pattern.occurrence_FPR", [{}, {"thres": 0.5}]),
                  ("pattern.standard_FPR", [{}, {"tol": 0.1}]), ("pattern.three_layer_FPR", [{}]), ("pattern.validate", [{}])]:
    def _mk(kws):
        def t(c):
            r, e = c.pair("patterns")
            return [R(r, "pat"), R(e, "pat")], dict(c.ch(kws))
        return t
    op(_fn)(_mk(_kws))


# ---- separation (heavy) ----------------------------------------------------------------------
def _src(c, field):
    r, e = c.pair("sources")
    return [R(r, field), R(e, field)]


@op("separation.bss_eval_sources", heavy=True)
def _(c):
    return _src(c, "src"), c.ch([{}, {"compute_permutation": False}])


@op("separation.bss_eval_images", heavy=True)
def _(c):
    return _src(c, "img"), c.ch([{}, {"compute_permutation": False}])


@op("separation.bss_eval_sources_framewise", heavy=True)
def _(c):
    n = c.specs[c.b("sources")]["ctx"]["nsampl"]
    w = c.ch([n // 2, n // 3 + 40])
    return _src(c, "src"), {"window": w, "hop": c.ch([w // 2, w]), "compute_permutation": c.ch([False, True])}


@op("separation.bss_eval_images_framewise", heavy=True)
def _(c):
    n = c.specs[c.b("sources")]["ctx"]["nsampl"]
    w = c.ch([n // 2, n // 3 + 40])
    return _src(c, "img"), {"window": w, "hop": c.ch([w // 2, w]), "compute_permutation": c.ch([False, True])}


@op("separation.evaluate", heavy=True)
def _(c):
    n = c.specs[c.b("sources")]["ctx"]["nsampl"]
    return _src(c, c.ch(["src", "img"])), c.ch([{}, {"window": n // 2, "hop": n // 2}])


@op("separation.validate")
def _(c):
    return _src(c, c.ch(["src", "img"])), {}


# ---- sonify ----------------------------------------------------------------------------------
@op("sonify.clicks", heavy=True)
def _(c):
    return [R(c.b("sonify"), "times"), c.ch([1000, 2000])], c.ch([{}, {"length": 1500}])


@op("sonify.time_frequency", heavy=True)
def _(c):
    b = c.b("sonify")
    return [R(b, "gram"), R(b, "freqs"), R(b, "times"), c.ch([1000, 2000])], c.ch([{}, {"length": 1500}, {"n_dec": 2}])


@op("sonify.pitch_contour", heavy=True)
def _(c):
    b = c.b("sonify")
    return [R(b, "times"), R(b, "contour"), 2000], c.ch([{}, {"amplitudes": R(b, "amps")}, {"length": 1500, "kind": "nearest"}])


@op("sonify.chroma", heavy=True)
def _(c):
    b = c.b("sonify")
    return [R(b, "chroma"), R(b, "times"), 2000], {}


@op("sonify.chords", heavy=True)
def _(c):
    b = c.b("sonify")
    return [R(b, "labels"), R(b, "iv"), 2000], {}


# ---- io (C15 view: the file object is the argument) ---------------------------------------------
IO_TEXT = {
    "io.load_events": "0.5\n1.0\n2.25\n",
    "io.load_labeled_events": "0.5 a\n1.0 b b\n",
    "io.load_intervals": "0.0 1.0\n1.0 2.5\n",
    "io.load_labeled_intervals": "0.0 1.0 A\n1.0 2.5 B\n",
    "io.load_valued_intervals": "0.0 1.0 440.0\n1.0 2.5 220.0\n",
    "io.load_time_series": "0.0 100.0\n0.01 0.0\n",
    "io.load_ragged_time_series": "0.0 100.0 200.0\n0.01\n0.02 300.0\n",
    "io.load_patterns": "pattern1\noccurrence1\n1.0, 60.0\n2.0, 62.0\noccurrence2\n5.0, 60.0\n",
    "io.load_key": "C# minor\n",
    "io.load_tempo": "60.0 120.0 0.5\n",
}
for _fn, _text in IO_TEXT.items():
    def _mk(text):
        def t(c):
            return [("stringio", text)], {}
        return t
    op(_fn)(_mk(_text))


@op("io.load_delimited")
def _(c):
    return [("stringio", "1.0,x\n2.5,y z\n"), ("lit", [float, str]), ","], {}


@op("io.load_wav")
def _(c):
    return [("wav", c.ch([1, 2]), c.ch([8, 64]))], c.ch([{}, {"mono": False}])


# ----------------------------------------------------------------------------------------------
def public_functions():
    """All public functions of the task modules, util, sonify, separation and io in the tree
    under test: {'module.func': function}."""
    import importlib
    from . import core

    out = {}
    for m in core.MODULES:
        mod = importlib.import_module("mir_eval." + m)
        for name, f in sorted(vars(mod).items()):
            if inspect.isfunction(f) and getattr(f, "__module__", None) == mod.__name__ and not name.startswith("_"):
                out["%s.%s" % (m, name)] = f
    return out


def uncovered():
    return sorted(set(public_functions()) - set(CATALOG))


TYPES_FOR = {}


def applicable(name, chooser):
    """-> list of (args, kwargs) instantiations possible on this pool (one per template)."""
    out = []
    for t in CATALOG[name]:
        try:
            out.append(t(chooser))
        except NA:
            pass
    return out
