"""C19 (third sentence only) -- framewise BSS-eval equals the non-framewise result on every
window, NaN in every metric for windows with a silent source, documented arity for all
inputs including empty ones.

The framewise functions are a loop over a chunked stream writing into np.empty buffers; the
simulator owns (a) the heap content those buffers start with (allocator seam, two poisons per
call) and (b) the stream: source drop-outs -- a reference or estimated source exactly zero over
chosen windows -- are the injected fault.  Reference model: the sequential non-framewise API
applied window by window.  DESIGN.md section 5.2.
"""

import copy

from . import core, seams

PROP = "C19"
RUNS = {"quick": 48, "thorough": 1500}
RUN_TIMEOUT = 600.0
TOL = 1e-6
ASSUMPTIONS = [
    "only the third sentence of C19 is decided (framewise == per-window non-framewise, NaN for silent windows, arity); "
    "exact decomposition, scale invariance and permutation optimality are NOT decided",
    "the per-window reference is mir_eval's own non-framewise function on a contiguous copy of the window; values are compared "
    "within 1e-6 dB (NaN/inf pattern and permutation exactly)",
    "windows are at least 2*nsrc*512 samples long (the property's validity bound applied per window)",
    "only numpy.empty/empty_like buffers allocated from mir_eval frames are poisoned",
]
RULE = ("each run: one source stream (nsrc 1-2 [3 thorough], nchan 1-2, window >= 2*nsrc*512, hop, nwin 0-4), estimates = mixed+noisy "
        "references, drop-out faults zeroing a reference or estimated source over chosen windows, empty inputs; both framewise "
        "variants and separation.evaluate, each under two heap poisons; non-trivial+distinct = distinct (variant, nsrc, nchan, nwin, "
        "silent-window pattern, compute_permutation) with nwin >= 2")


def gen_plan(rng, tier, i):
    nsrc = rng.choice([1, 2, 2] if tier == "quick" else [1, 2, 2, 2, 3])
    nchan = rng.choice([1, 2])
    window = 2 * nsrc * 512 + rng.choice([0, 0, 37, 200])
    hop = rng.choice([window, window // 2, window // 2 + 13, window * 3 // 4, window + 97, window * 3 // 2])  # incl. gaps between windows
    nwin = rng.choice([0, 1, 2, 2, 3, 3, 4] if nsrc < 3 else [1, 2, 3])
    if nwin == 0:
        nsampl = window - rng.choice([1, 100])
        if rng.random() < 0.5:
            nsampl = max(2 * nsrc * 512, nsampl)  # still a valid signal for the fall-back
    else:
        nsampl = window + hop * (nwin - 1) + rng.choice([0, 0, 1, hop // 2, hop - 1])
    empty = i % 11 == 5
    drop = []
    if nwin >= 2 and rng.random() < 0.7:
        pattern = rng.choice(["one", "some", "all_but_one", "first", "last"])
        wins = list(range(nwin))
        if pattern == "one":
            ks = [rng.choice(wins)]
        elif pattern == "some":
            ks = [k for k in wins if rng.random() < 0.5] or [0]
        elif pattern == "all_but_one":
            keep = rng.choice(wins)
            ks = [k for k in wins if k != keep]
        elif pattern == "first":
            ks = [0]
        else:
            ks = [nwin - 1]
        for k in ks:
            d = {"side": rng.choice(["ref", "est"]), "src": rng.randrange(nsrc), "win": k}
            if rng.random() < 0.3:
                # near-silent: everything in the window is zero except ONE sample (first / last / inside):
                # the window is NOT silent and must be scored like any other
                d["keep"] = rng.choice([0, 0, window - 1, rng.randrange(window)])
            drop.append(d)
    poisons = rng.sample(seams.POISONS, 2)
    return {
        "prop": PROP, "nsrc": nsrc, "nchan": nchan, "nsampl": nsampl, "window": window, "hop": hop, "nwin_planned": nwin,
        "empty": empty, "drop": drop, "perm": rng.choice([False, True]), "variants": ["sources", "images"],
        "evaluate": rng.random() < 0.5, "sig_seed": rng.getrandbits(31), "poisons": poisons,
        "est_kind": rng.choice(["mix", "mix", "filtered", "noisy"]),
        # estimates delivered in a non-identity order: with compute_permutation=False every window must be scored
        # as delivered, with True the best assignment must be found per window
        "est_order": (rng.sample(range(nsrc), nsrc) if (nsrc > 1 and rng.random() < 0.4) else None),
    }


def build_signals(plan):
    import numpy as np

    nsrc, nsampl, nchan = plan["nsrc"], plan["nsampl"], plan["nchan"]
    if plan["empty"]:
        return np.zeros((0, 0)), np.zeros((0, 0)), np.zeros((0, 0, 0)), np.zeros((0, 0, 0))
    g = np.random.RandomState(plan["sig_seed"])
    ref = g.randn(nsrc, nsampl, nchan)
    kind = plan["est_kind"]
    if kind == "mix":
        mix = np.eye(nsrc) + 0.3 * g.randn(nsrc, nsrc)
        est = np.einsum("ij,jtc->itc", mix, ref) + 0.05 * g.randn(nsrc, nsampl, nchan)
    elif kind == "filtered":
        h = np.array([1.0, 0.5, -0.2, 0.1])
        est = np.stack([np.stack([np.convolve(ref[s, :, c], h)[:nsampl] for c in range(nchan)], -1) for s in range(nsrc)])
        est = est + 0.01 * g.randn(nsrc, nsampl, nchan)
    else:
        est = ref + 0.5 * g.randn(nsrc, nsampl, nchan)
    if plan.get("est_order"):
        est = est[plan["est_order"]]
    for d in plan["drop"]:
        a, b = d["win"] * plan["hop"], d["win"] * plan["hop"] + plan["window"]
        arr = ref if d["side"] == "ref" else est
        keep = None
        if d.get("keep") is not None and a + d["keep"] < arr.shape[1]:
            keep = (a + d["keep"], arr[d["src"], a + d["keep"], :].copy())
        arr[d["src"], a:b, :] = 0.0
        if keep is not None:
            arr[d["src"], keep[0], :] = keep[1] if np.all(keep[1] != 0) else 1.0
    ref = np.ascontiguousarray(ref)
    est = np.ascontiguousarray(est)
    return ref[:, :, 0].copy(), est[:, :, 0].copy(), ref, est


def _call(fn, *a, **k):
    try:
        return ("ok", fn(*a, **k))
    except Exception as e:  # noqa: BLE001
        return ("exc", e)


def _silent(x):
    """True if any source (first axis) is exactly zero everywhere in x."""
    import numpy as np

    return bool(np.any(np.all(x.reshape(x.shape[0], -1) == 0, axis=1))) if x.size else False


def _close(a, b):
    import numpy as np

    a, b = np.asarray(a, dtype=float), np.asarray(b, dtype=float)
    if a.shape != b.shape:
        return False
    if not np.array_equal(np.isnan(a), np.isnan(b)):
        return False
    if not np.array_equal(np.isinf(a), np.isinf(b)):
        return False
    fin = np.isfinite(a)
    if np.any(np.sign(a[~fin & ~np.isnan(a)]) != np.sign(b[~fin & ~np.isnan(b)])):
        return False
    return bool(np.all(np.abs(a[fin] - b[fin]) <= TOL * np.maximum(1.0, np.abs(b[fin]))))


def execute(plan, want_logs=False):
    core.import_target()
    import numpy as np
    import mir_eval.separation as sep

    log = core.EventLog(keep=want_logs)
    stats = core.Stats()
    seams.WARN.install()
    violations, seen = [], set()

    def report(cls, site, detail):
        if (cls, site) not in seen:
            seen.add((cls, site))
            violations.append(core.violation(cls, site, detail))

    ref2, est2, ref3, est3 = build_signals(plan)
    window, hop, perm = plan["window"], plan["hop"], plan["perm"]
    if not plan["empty"] and (_silent(ref3) or _silent(est3)):
        # drop-outs in every window of one source silence it over the WHOLE stream: that is not a valid
        # (non-silent) set of sources any more -- the library must reject it, which is C14's business, not C19's
        stats.inc("probe.whole_source_silent_stream_skipped")
        log.add("skipped", "whole source silent")
        return {"violations": [], "stats": stats.dump(), "log_digest": log.digest(), "n_events": log.n,
                "log_events": log.events if want_logs else None}
    pA, pB = plan["poisons"]
    log.add("cfg", plan["nsrc"], plan["nchan"], plan["nsampl"], window, hop, perm, plan["empty"], len(plan["drop"]))
    for variant in plan["variants"]:
        if variant == "sources":
            fw, nf, ref, est, arity, names = sep.bss_eval_sources_framewise, sep.bss_eval_sources, ref2, est2, 4, ["sdr", "sir", "sar", "perm"]
        else:
            fw, nf, ref, est, arity, names = sep.bss_eval_images_framewise, sep.bss_eval_images, ref3, est3, 5, ["sdr", "isr", "sir", "sar", "perm"]
        site = "bss_eval_%s_framewise" % variant
        r0, e0 = core.digest(ref), core.digest(est)
        seams.ALLOC["fired"] = 0
        seams.set_poison(pA)
        outA = _call(fw, ref, est, window=window, hop=hop, compute_permutation=perm)
        seams.set_poison(pB)
        outB = _call(fw, ref, est, window=window, hop=hop, compute_permutation=perm)
        seams.set_poison(None)
        seams.WARN.take()
        stats.inc("framewise_calls", 2)
        stats.inc("fault.poisoned_allocations", seams.ALLOC["fired"])
        if (core.digest(ref), core.digest(est)) != (r0, e0):
            report("ARG_MUTATED", site, "framewise call modified its input arrays")
        dA = core.digest(outA[1]) if outA[0] == "ok" else "exc:" + type(outA[1]).__name__
        dB = core.digest(outB[1]) if outB[0] == "ok" else "exc:" + type(outB[1]).__name__
        log.add("framewise", variant, dA, dB)
        if dA != dB:
            report("UNINIT_READ", site, "same call under heap poison %s and %s: %s vs %s" % (
                pA, pB, core.brief(outA[1], 300), core.brief(outB[1], 300)))
        if outA[0] == "exc":
            if plan["empty"] or not _any_window_model_raises(nf, ref, est, plan):
                report("FRAMEWISE_RAISED", site, "%s: %s on a valid stream (nsampl=%d window=%d hop=%d)" % (
                    type(outA[1]).__name__, core.scrub(str(outA[1]))[:200], plan["nsampl"], window, hop))
            stats.inc("outcome.exc")
            continue
        res = outA[1]
        # ---- arity ------------------------------------------------------------------------
        try:
            n_out = len(res)
        except TypeError:
            n_out = -1
        if n_out != arity:
            report("WRONG_ARITY", site + (":empty" if plan["empty"] else ""),
                   "%d results instead of the documented %d (%s)" % (n_out, arity, "empty input" if plan["empty"] else "nwin=%s" % plan["nwin_planned"]))
            stats.inc("outcome.wrong_arity")
            continue
        if plan["empty"]:
            stats.inc("probe.empty_path")
            if any(np.asarray(x).size for x in res):
                report("EMPTY_NOT_EMPTY", site, "non-empty result for empty input: %s" % core.brief(res))
            continue
        for x in res:
            for sv in seams.SENTINELS:
                if np.any(np.asarray(x, dtype=float) == sv):
                    report("UNINIT_READ", site, "poison sentinel %r present in a returned array: %s" % (sv, core.brief(x, 200)))
        # ---- per-window reference model ---------------------------------------------------
        nsampl = ref.shape[1]
        nwin = int(np.floor((nsampl - window + hop) / hop))
        if nwin < 2:
            stats.inc("probe.fallback_path")
            exp = _call(nf, ref.copy(), est.copy(), perm)
            seams.WARN.take()
            if exp[0] == "ok":
                for name, got, want in zip(names, res, exp[1]):
                    want = np.expand_dims(np.asarray(want), -1)
                    ok = np.array_equal(np.asarray(got), want) if name == "perm" else _close(got, want)
                    if not ok:
                        report("WINDOW_MISMATCH", site + ":" + name, "fall-back (nwin=%d): framewise %s, non-framewise %s" % (
                            nwin, core.brief(got, 200), core.brief(want, 200)))
            stats.see("configs", (variant, plan["nsrc"], plan["nchan"], nwin, (), perm))
            continue
        stats.inc("probe.loop_body_entered")
        pattern = []
        for k in range(nwin):
            sl = slice(k * hop, k * hop + window)
            rs, es = ref[:, sl].copy(), est[:, sl].copy()
            if rs.shape[1] == 0:
                continue
            if _silent(rs) or _silent(es):
                pattern.append(k)
                stats.inc("probe.silent_window")
                stats.inc("fault.dropout_windows")
                for name, got in zip(names[:-1], res[:-1]):
                    col = np.asarray(got)[:, k] if np.asarray(got).ndim == 2 and np.asarray(got).shape[1] > k else None
                    if col is None or not np.all(np.isnan(col)):
                        report("NOT_NAN_SILENT", site + ":" + name, "window %d has a silent source but %s[:, %d] = %s" % (
                            k, name, k, core.brief(col, 120)))
                continue
            exp = _call(nf, rs, es, perm)
            seams.WARN.take()
            stats.inc("model_calls")
            if exp[0] != "ok":
                stats.inc("model_raised")
                continue
            if any(d.get("keep") is not None and d["win"] == k for d in plan["drop"]):
                stats.inc("probe.near_silent_window_scored")
            for name, got, want in zip(names, res, exp[1]):
                g = np.asarray(got)
                col = g[:, k] if g.ndim == 2 and g.shape[1] > k else None
                ok = col is not None and (np.array_equal(col, np.asarray(want, dtype=float)) if name == "perm" else _close(col, want))
                if not ok:
                    report("WINDOW_MISMATCH", site + ":" + name, "window %d [%d:%d]: framewise %s, non-framewise on that window %s" % (
                        k, k * hop, k * hop + window, core.brief(col, 200), core.brief(want, 200)))
        for name, got in zip(names, res):
            if np.asarray(got).shape != (plan["nsrc"], nwin):
                report("WINDOW_MISMATCH", site + ":" + name, "shape %r, expected (nsrc=%d, nwin=%d)" % (np.asarray(got).shape, plan["nsrc"], nwin))
        stats.see("configs", (variant, plan["nsrc"], plan["nchan"], nwin, tuple(pattern), perm))
        stats.inc("windows", nwin)
    # ---- separation.evaluate on the same stream ----------------------------------------------
    if plan["evaluate"]:
        for ref, est in ((ref2, est2), (ref3, est3)):
            seams.set_poison(pA)
            out = _call(sep.evaluate, ref, est, window=window, hop=hop, compute_permutation=perm)
            seams.set_poison(None)
            seams.WARN.take()
            stats.inc("evaluate_calls")
            log.add("evaluate", ref.ndim, out[0], core.digest(out[1]) if out[0] == "ok" else type(out[1]).__name__)
            if out[0] == "exc":
                report("EVALUATE_RAISED", "separation.evaluate" + (":empty" if plan["empty"] else ""),
                       "%s: %s (input ndim=%d, %s)" % (type(out[1]).__name__, core.scrub(str(out[1]))[:160], ref.ndim,
                                                      "empty" if plan["empty"] else "valid stream"))
            else:
                d = out[1]
                want_keys = 10 + (8 if ref.ndim < 3 else 0)
                if len(d) != want_keys:
                    report("WRONG_ARITY", "separation.evaluate", "%d scores, expected %d" % (len(d), want_keys))
                elif not plan["empty"]:
                    # the 'Frames' entries are outputs of the framewise variants: they must be what the framewise
                    # function itself returns for the same call (evaluate() is called with and compared under the
                    # same keywords; which of them it forwards is its own business, so the comparison uses the
                    # keyword-free call, the only one whose meaning does not depend on forwarding)
                    ev0 = _call(sep.evaluate, ref, est)
                    direct = [("Images Frames", _call(sep.bss_eval_images_framewise, ref, est), ["Source to Distortion", "Image to Spatial", "Source to Interference", "Source to Artifact", "Source permutation"])]
                    if ref.ndim < 3:
                        direct.append(("Sources Frames", _call(sep.bss_eval_sources_framewise, ref, est), ["Source to Distortion", "Source to Interference", "Source to Artifact", "Source permutation"]))
                    seams.WARN.take()
                    stats.inc("evaluate_calls")
                    if ev0[0] == "ok":
                        for prefix, dr, keys in direct:
                            if dr[0] != "ok":
                                continue
                            for key, arr in zip(keys, dr[1]):
                                got = ev0[1].get("%s - %s" % (prefix, key))
                                if got is None or not _close(np.asarray(got, dtype=float), np.asarray(arr, dtype=float)):
                                    # observation only: which keywords/defaults evaluate() uses for its framewise
                                    # entries is the business of C03 ("evaluate() is the documented bundle"), not
                                    # of the sentence of C19 claimed here -- a permuted per-window result is still
                                    # "the non-framewise result on that window"
                                    stats.inc("probe.evaluate_frames_differ_from_framewise_default")
    return {"violations": violations, "stats": stats.dump(), "log_digest": log.digest(), "n_events": log.n,
            "log_events": log.events if want_logs else None}


def _any_window_model_raises(nf, ref, est, plan):
    import numpy as np

    window, hop = plan["window"], plan["hop"]
    nwin = int(np.floor((ref.shape[1] - window + hop) / hop))
    wins = [slice(None)] if nwin < 2 else [slice(k * hop, k * hop + window) for k in range(nwin)]
    for sl in wins:
        rs, es = ref[:, sl].copy(), est[:, sl].copy()
        if nwin >= 2 and (_silent(rs) or _silent(es)):
            continue
        if _call(nf, rs, es, plan["perm"])[0] == "exc":
            return True
    return False


# --------------------------------------------------------------------------------------
def size(plan):
    return (plan["nsrc"] * 10 + plan["nchan"] * 3 + plan["nsampl"] / 500.0 + 4 * len(plan["drop"]) + 5 * len(plan["variants"])
            + (3 if plan["perm"] else 0) + (5 if plan["evaluate"] else 0) + (2 if plan["est_kind"] != "noisy" else 0))


def shrink(plan, test, budget):
    plan = copy.deepcopy(plan)

    def attempt(**changes):
        nonlocal plan
        cand = dict(copy.deepcopy(plan), **changes)
        if size(cand) < size(plan) and test(cand):
            plan = cand
            return True
        return False

    if len(plan["variants"]) > 1:
        for v in plan["variants"]:
            if attempt(variants=[v]):
                break
    if plan["evaluate"]:
        attempt(evaluate=False)
    if plan["variants"] and plan["evaluate"]:
        attempt(variants=[])
    for k in range(len(plan["drop"]) - 1, -1, -1):
        attempt(drop=plan["drop"][:k] + plan["drop"][k + 1:])
    if plan["perm"]:
        attempt(perm=False)
    if plan["nchan"] > 1:
        attempt(nchan=1)
    while plan["nwin_planned"] > 2:
        nw = plan["nwin_planned"] - 1
        drop = [d for d in plan["drop"] if d["win"] < nw]
        if not attempt(nwin_planned=nw, nsampl=plan["window"] + plan["hop"] * (nw - 1), drop=drop):
            break
    if plan["nsrc"] > 1:
        ns = plan["nsrc"] - 1
        w = 2 * ns * 512
        nw = max(plan["nwin_planned"], 0)
        attempt(nsrc=ns, window=w, hop=w // 2, nsampl=w + (w // 2) * max(nw - 1, 0),
                drop=[dict(d, src=min(d["src"], ns - 1)) for d in plan["drop"]])
    if plan["est_kind"] != "noisy":
        attempt(est_kind="noisy")
    return plan


def describe(plan, res):
    return {k: plan[k] for k in ("nsrc", "nchan", "nsampl", "window", "hop", "nwin_planned", "empty", "drop", "perm", "variants",
                                 "evaluate", "poisons", "est_kind", "sig_seed", "est_order")} | {"log_digest": res["log_digest"]}


def coverage(agg, tier, n_runs, wall, extra):
    st = agg["stats"]
    c = st.count
    return {
        "evaluations": c.get("framewise_calls", 0) + c.get("evaluate_calls", 0),
        "distinct_nontrivial": len([x for x in st.distinct.get("configs", ()) if x[3] >= 2]),
        "rule": RULE,
        "samples": agg["samples"][:3],
        "framewise_calls": c.get("framewise_calls", 0),
        "evaluate_calls": c.get("evaluate_calls", 0),
        "windows_checked": c.get("windows", 0),
        "reference_model_calls": c.get("model_calls", 0),
        "reference_model_raised": c.get("model_raised", 0),
        "faults_fired": {"dropout_windows": c.get("fault.dropout_windows", 0), "poisoned_allocations": c.get("fault.poisoned_allocations", 0)},
        "probes": {k.split(".", 1)[1]: v for k, v in sorted(c.items()) if k.startswith("probe.")},
        "distinct_configs_all": len(st.distinct.get("configs", ())),
        "distinct_interleavings": len(st.distinct.get("configs", ())),
        "distinct_interleavings_measure": "no thread interleaving in this check; the measure is distinct (variant, nsrc, nchan, nwin, silent-window pattern, compute_permutation)",
        "components": {
            "real": ["mir_eval.separation framewise and non-framewise functions, separation.evaluate (tree under test)", "numpy, scipy.linalg, scipy.fftpack"],
            "stub": ["heap content of numpy.empty buffers (allocator seam)", "source streams with injected drop-outs (model side)"],
        },
    }
