#!/venv/bin/python
"""Evaluate one seeded change against the checks.

  seeded_eval.py <dir-with-patch.diff,demo.py,meta.json> [--props C15,C20] [--tier quick] [--keep-as <id>]

Steps (all in a scratch copy of /repo outside /repo and /verif, removed afterwards):
  1. demo.py on the clean copy must exit 0, on the patched copy non-zero
  2. the 66 baseline tests must still pass on the patched copy
  3. the named properties' checks run with MIR_EVAL_SRC=<patched copy>; a seeded change counts as caught
     iff a check exits 1 with a VIOLATION line whose replay is clean on the unpatched tree
With --keep-as the change is stored as /verif/seeded/<id>/ with the results merged into meta.json.
"""
import json
import os
import re
import shutil
import subprocess
import sys
import tempfile
import time

VERIF = os.path.dirname(os.path.dirname(os.path.abspath(__file__)))


def sh(cmd, **kw):
    return subprocess.run(cmd, stdout=subprocess.PIPE, stderr=subprocess.STDOUT, text=True, **kw)


def main(argv):
    src = os.path.abspath(argv[0])
    props, tier, keep = None, "quick", None
    i = 1
    while i < len(argv):
        if argv[i] == "--props":
            props = argv[i + 1].split(",")
        elif argv[i] == "--tier":
            tier = argv[i + 1]
        elif argv[i] == "--keep-as":
            keep = argv[i + 1]
        i += 2
    meta = json.load(open(os.path.join(src, "meta.json")))
    props = props or [meta["property"]]
    base = tempfile.mkdtemp(prefix="seedeval.")
    out = {"evaluated_at_repo_commit": sh(["git", "-C", "/repo", "log", "--format=%h", "-1"]).stdout.strip(), "checks": {}}
    try:
        ign = shutil.ignore_patterns(".git", "__pycache__", "*.egg-info", "coverage.xml")
        clean, patched = os.path.join(base, "clean"), os.path.join(base, "patched")
        shutil.copytree("/repo", clean, ignore=ign)
        shutil.copytree("/repo", patched, ignore=ign)
        p = sh(["patch", "-p1", "--no-backup-if-mismatch", "-i", os.path.join(src, "patch.diff")], cwd=patched)
        out["patch_applies"] = p.returncode == 0
        if p.returncode != 0:
            print(p.stdout)
            print(json.dumps(out, indent=1))
            return 2
        shutil.copy(os.path.join(src, "demo.py"), os.path.join(clean, "demo.py"))
        shutil.copy(os.path.join(src, "demo.py"), os.path.join(patched, "demo.py"))
        env = dict(os.environ)
        env.pop("PYTHONPATH", None)
        d0 = sh(["/venv/bin/python", "demo.py"], cwd=clean, env=env)
        d1 = sh(["/venv/bin/python", "demo.py"], cwd=patched, env=env)
        out["demo_exit_clean"], out["demo_exit_patched"] = d0.returncode, d1.returncode
        out["demo_tail_patched"] = d1.stdout[-400:]
        os.unlink(os.path.join(patched, "demo.py"))
        b = sh([os.path.join(VERIF, "tools", "baseline_compare.py"), patched])
        out["baseline_66_pass"] = b.returncode == 0
        if b.returncode != 0:
            out["baseline_tail"] = b.stdout[-600:]
        for prop in props:
            t0 = time.time()
            e = dict(os.environ, MIR_EVAL_SRC=patched)
            e.pop("MIRSIM_REEXEC", None)
            q = sh([os.path.join(VERIF, "check"), prop, "--tier", tier], env=e, cwd=VERIF)
            vio = re.findall(r"^VIOLATION property=(\S+) replay=(\S+)$", q.stdout, re.M)
            classes = re.findall(r"^  class=(\S+) site=(\S+)", q.stdout, re.M)
            details = re.findall(r"^  detail: (.*)$", q.stdout, re.M)
            rec = {"exit": q.returncode, "caught": q.returncode == 1 and bool(vio), "classes": classes[:6], "detail": details[:2],
                   "wall_s": round(time.time() - t0, 1), "tier": tier}
            rec["attributable"] = []
            for n, (_, rp) in enumerate(vio):
                if n < 4:
                    r1 = sh([os.path.join(VERIF, "check"), prop, "--replay", rp], env=e, cwd=VERIF)
                    e2 = dict(e, MIR_EVAL_SRC="/repo")
                    r0 = sh([os.path.join(VERIF, "check"), prop, "--replay", rp], env=e2, cwd=VERIF)
                    rec["attributable"].append({"class_site": classes[n] if n < len(classes) else None,
                                                "replay_reproduces_on_patched": r1.returncode == 1,
                                                "replay_log_identical": "IDENTICAL" in r1.stdout,
                                                "replay_clean_on_unpatched": r0.returncode == 0})
                try:
                    os.unlink(rp)
                except OSError:
                    pass
            # caught = some reported violation replays exactly on the patched tree AND is clean on the unpatched one
            rec["caught"] = any(a["replay_reproduces_on_patched"] and a["replay_clean_on_unpatched"] for a in rec["attributable"])
            if q.returncode not in (0, 1):
                rec["tail"] = q.stdout[-800:]
            out["checks"][prop] = rec
    finally:
        shutil.rmtree(base, ignore_errors=True)
    print(json.dumps(out, indent=1))
    if keep:
        dst = os.path.join(VERIF, "seeded", keep)
        os.makedirs(dst, exist_ok=True)
        for f in ("patch.diff", "demo.py"):
            shutil.copy(os.path.join(src, f), os.path.join(dst, f))
        meta["evaluation"] = out
        json.dump(meta, open(os.path.join(dst, "meta.json"), "w"), indent=1)
    return 0


if __name__ == "__main__":
    sys.exit(main(sys.argv[1:]))
