#!/venv/bin/python
"""Print the markdown table of kept seeded changes (DESIGN.md section 13) from seeded/*/meta.json."""
import glob
import json
import os

VERIF = os.path.dirname(os.path.dirname(os.path.abspath(__file__)))
rows = []
for d in sorted(glob.glob(os.path.join(VERIF, "seeded", "*"))):
    mp = os.path.join(d, "meta.json")
    if not os.path.exists(mp):
        continue
    m = json.load(open(mp))
    ev = m.get("evaluation", {})
    checks = ev.get("checks", {})
    caught = []
    for prop, c in sorted(checks.items()):
        if c.get("caught"):
            att = [a for a in c.get("attributable", []) if a.get("replay_reproduces_on_patched") and a.get("replay_clean_on_unpatched")]
            cls = ", ".join("%s@%s" % tuple(a["class_site"]) for a in att[:2] if a.get("class_site"))
            caught.append("**%s**: %s" % (prop, cls or "yes"))
        elif c.get("exit") == 1:
            caught.append("%s: alarm raised (exit 1) but the minimised replay did not reproduce" % prop)
        else:
            caught.append("%s: missed" % prop)
    summ = " ".join(m.get("summary", "").split())
    needs = " ".join(m.get("needs", "").split())
    rows.append("| %s | %s | %s | %s | demo %s/%s, 66 baseline tests %s | %s |" % (
        os.path.basename(d), m.get("property"), (summ[:160] + "...") if len(summ) > 160 else summ,
        (needs[:140] + "...") if len(needs) > 140 else needs,
        ev.get("demo_exit_clean"), ev.get("demo_exit_patched"), "pass" if ev.get("baseline_66_pass") else "FAIL", "; ".join(caught)))
print("| id | written for | change | needs, to manifest | confirmed | checks (quick tier) |")
print("|---|---|---|---|---|---|")
print("\n".join(rows))
