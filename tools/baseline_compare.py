#!/venv/bin/python
"""Run the pinned baseline test command on a tree and compare with BASELINE.json's stable_pass list.
usage: baseline_compare.py [tree]   (default /repo)   exit 0 iff every stable_pass test passes."""
import json, os, subprocess, sys, tempfile
import xml.etree.ElementTree as ET
tree = sys.argv[1] if len(sys.argv) > 1 else "/repo"
base = json.load(open("/root/.vp/BASELINE.json"))
fd, xml = tempfile.mkstemp(suffix=".xml"); os.close(fd)
env = dict(os.environ); env.pop("MIR_EVAL_VERIF", None)
cmd = ["/venv/bin/python", "-m", "pytest", "-ra", "-q", "-p", "no:cacheprovider", "--timeout=900",
       "--continue-on-collection-errors", "--junitxml=" + xml]
if tree != "/repo":
    env["PYTHONPATH"] = tree
p = subprocess.run(cmd, cwd=tree, env=env, stdout=subprocess.PIPE, stderr=subprocess.STDOUT, text=True)
passed = set()
for tc in ET.parse(xml).getroot().iter("testcase"):
    if not any(ch.tag in ("failure", "error", "skipped") for ch in tc):
        passed.add("%s::%s" % (tc.get("classname"), tc.get("name")))
os.unlink(xml)
missing = [t for t in base["stable_pass"] if t not in passed]
print("baseline: %d/%d stable tests pass on %s" % (len(base["stable_pass"]) - len(missing), len(base["stable_pass"]), tree))
for m in missing: print("  MISSING", m)
if missing: print(p.stdout[-3000:])
sys.exit(1 if missing else 0)
