#!/bin/bash
# Run every registered quick command exactly as MANIFEST.json states it, then validate MANIFEST and evidence.
# Use before committing evidence files (evidence must come from the registered commands, no overrides).
cd /verif || exit 2
unset VERIF_RUNS VERIF_WALK_FILES MIR_EVAL_SRC VERIF_WORKERS
rc=0
for id in $(jq -r '.checks[].property_id' MANIFEST.json); do
  cmd=$(jq -r --arg id "$id" '.checks[] | select(.property_id==$id) | .quick_cmd' MANIFEST.json)
  echo "== $id: $cmd"
  bash -c "$cmd" > /tmp/quick_$id.log 2>&1; e=$?
  grep -E "^(VIOLATION|KNOWN-FINDING|HARNESS-ERROR|mirsim: $id)" /tmp/quick_$id.log | cut -c1-300
  echo "   exit=$e"; [ $e -ne 0 ] && rc=1
done
python3-vt - <<'PY' || rc=1
import json, jsonschema
m = json.load(open('/verif/MANIFEST.json'))
jsonschema.validate(m, json.load(open('/root/.vp/MANIFEST.schema.json')))
es = json.load(open('/root/.vp/EVIDENCE.schema.json'))
for c in m['checks']:
    jsonschema.validate(json.load(open('/verif/' + c['evidence_file'])), es)
ids = {json.loads(l)['id'] for l in open('/verif/properties.jsonl')}
claimed = {c['property_id'] for c in m['checks']}; na = {e['property_id'] for e in m['not_applicable']}
assert claimed | na == ids and not (claimed & na), (ids - claimed - na, claimed & na)
print('manifest + evidence valid; claimed', sorted(claimed), 'n/a', len(na))
PY
exit $rc
